#!/bin/sh
# usage: checks/run.sh <property id> <quick|thorough>
# Rebuilds the SSA encoding from /repo's current working tree on every run.
set -u
export GOFLAGS=-mod=mod GOPROXY=off GOSUMDB=off GOTOOLCHAIN=local
cd /verif || exit 2
if [ ! -x bin/symgo ] || [ -n "$(find engine -name '*.go' -newer bin/symgo 2>/dev/null | head -1)" ]; then
  (cd engine && go build -o /verif/bin/symgo ./cmd/symgo) || { echo "INCONCLUSIVE property=$1 cannot build symgo"; exit 2; }
fi
# quick tier: run-wide limit (items unfinished by then are inconclusive; confirmed violations are still reported)
dl=0; [ "${2:-quick}" = quick ] && dl="${VERIF_DEADLINE:-1500}"
# VERIF_OUTROOT (seed testing only): write evidence/ and out/ there instead of /verif
exec bin/symgo -prop "$1" -tier "${2:-quick}" -jobs "${VERIF_JOBS:-16}" -deadline "$dl" ${VERIF_OUTROOT:+-outroot "$VERIF_OUTROOT"}
