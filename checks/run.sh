#!/bin/sh
# usage: checks/run.sh <property id> <quick|thorough>
# Rebuilds the SSA encoding from /repo's current working tree on every run.
set -u
export GOFLAGS=-mod=mod GOPROXY=off GOSUMDB=off GOTOOLCHAIN=local
cd /verif || exit 2
if [ ! -x bin/symgo ] || [ -n "$(find engine -name '*.go' -newer bin/symgo 2>/dev/null | head -1)" ]; then
  (cd engine && go build -o /verif/bin/symgo ./cmd/symgo) || { echo "INCONCLUSIVE property=$1 cannot build symgo"; exit 2; }
fi
exec bin/symgo -prop "$1" -tier "${2:-quick}" -jobs "${VERIF_JOBS:-16}"
