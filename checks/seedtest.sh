#!/bin/bash
# usage: seedtest.sh <seed dir> <property id> [tier]
# 1. confirms the seeded change in the scratch worktree /tmp/wt_seed (builds, existing tests of the touched
#    module pass, demo fails with the change and passes without), 2. applies it to /repo, runs the check, reverts.
export GOFLAGS=-mod=mod GOPROXY=off GOSUMDB=off GOTOOLCHAIN=local
sd=$(realpath $1); prop=$2; tier=${3:-quick}
wt=/tmp/wt_seed
[ -d $wt/.git ] || [ -f $wt/.git ] || { git -C /repo worktree prune; git -C /repo worktree add -q --detach $wt HEAD || exit 3; }
pkg=$(cat $sd/demo_pkg.txt | tr -d '\n ')
tags=""
grep -qi purego $sd/notes.txt 2>/dev/null && grep -q "tags purego" $sd/notes.txt && tags="-tags purego"
git -C $wt checkout -q -- . ; git -C $wt clean -fdq
cp $sd/zz_seed_demo_test.go $wt/$pkg/
(cd $wt && go test $tags -vet=off -count=1 -run 'Seed|Demo|seed|demo' ./$pkg/ > /tmp/seed_clean.log 2>&1); clean=$?
git -C $wt apply $sd/patch.diff || { echo "SEED $sd: patch does not apply"; exit 3; }
(cd $wt && go build ./... > /tmp/seed_build.log 2>&1); build=$?
(cd $wt && go test $tags -vet=off -count=1 -run 'Seed|Demo|seed|demo' ./$pkg/ > /tmp/seed_demo.log 2>&1); demo=$?
rm -f $wt/$pkg/zz_seed_demo_test.go
(cd $wt && go test -vet=off -count=1 $(go list ./... | grep -v internal/wordlists) > /tmp/seed_suite.log 2>&1); suite=$?
git -C $wt checkout -q -- . ; git -C $wt clean -fdq
echo "SEED $(basename $sd): demo_on_clean=$clean(0 expected) build=$build(0) demo_with_change=$demo(non-0 expected) suite_with_change=$suite(0)"
git -C /repo apply $sd/patch.diff || { echo "cannot apply to /repo"; exit 3; }
start=$(date +%s)
# evidence and replays of a run under a seeded change never go to /verif/evidence
rm -rf /tmp/seed_out; mkdir -p /tmp/seed_out
VERIF_OUTROOT=/tmp/seed_out timeout 1800 /verif/checks/run.sh $prop $tier > /tmp/seed_check.log 2>&1; rc=$?
end=$(date +%s)
git -C /repo checkout -- .
echo "CHECK $(basename $sd) property=$prop tier=$tier exit=$rc time=$((end-start))s"
grep -m3 "VIOLATION\|KNOWN-FINDING" /tmp/seed_check.log | cut -c1-200
grep -m2 "INCONCLUSIVE" /tmp/seed_check.log | cut -c1-260
