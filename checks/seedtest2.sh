#!/bin/bash
# usage: seedtest2.sh <seed dir> <property id> [tier]
# Like seedtest.sh but never touches /repo: a private scratch worktree of /repo's HEAD gets the change,
# the check runs against it (symgo -repo <worktree> -outroot <scratch>), everything is removed afterwards.
# Several of these can run in parallel.
export GOFLAGS=-mod=mod GOPROXY=off GOSUMDB=off GOTOOLCHAIN=local
sd=$(realpath $1); prop=$2; tier=${3:-quick}
name=$(basename $sd)
wt=/tmp/wt_s_$name; so=/tmp/so_$name
rm -rf $so; mkdir -p $so
git -C /repo worktree remove --force $wt 2>/dev/null
git -C /repo worktree add -q --detach $wt HEAD || exit 3
pkg=$(cat $sd/demo_pkg.txt | tr -d '\n ')
tags=""
grep -q "tags purego" $sd/notes.txt 2>/dev/null && tags="-tags purego"
if [ -n "${SEED_SKIPCONF:-}" ]; then
  git -C $wt apply $sd/patch.diff || exit 3
else
cp $sd/zz_seed_demo_test.go $wt/$pkg/
(cd $wt && go test $tags -vet=off -count=1 -run 'Seed|Demo|seed|demo' ./$pkg/ > $so/clean.log 2>&1); clean=$?
git -C $wt apply $sd/patch.diff || { echo "SEED $sd: patch does not apply"; git -C /repo worktree remove --force $wt; exit 3; }
(cd $wt && go build ./... > $so/build.log 2>&1); build=$?
(cd $wt && go test $tags -vet=off -count=1 -run 'Seed|Demo|seed|demo' ./$pkg/ > $so/demo.log 2>&1); demo=$?
rm -f $wt/$pkg/zz_seed_demo_test.go
(cd $wt && go test -vet=off -count=1 $(go list ./... | grep -v internal/wordlists) > $so/suite.log 2>&1); suite=$?
fi
[ -z "${SEED_SKIPCONF:-}" ] && echo "SEED $name: demo_on_clean=$clean(0 expected) build=$build(0) demo_with_change=$demo(non-0 expected) suite_with_change=$suite(0)"
start=$(date +%s)
(cd /verif && timeout ${SEED_TIMEOUT:-1800} bin/symgo -repo $wt -outroot $so -prop $prop -tier $tier -jobs ${VERIF_JOBS:-8} ${SEED_ONLY:+-only "$SEED_ONLY"} > $so/check.log 2>&1); rc=$?
end=$(date +%s)
echo "CHECK $name property=$prop tier=$tier exit=$rc time=$((end-start))s"
grep -m3 "VIOLATION\|KNOWN-FINDING" $so/check.log | cut -c1-220
grep -m2 "INCONCLUSIVE" $so/check.log | cut -c1-260
cp $so/check.log /tmp/seedcheck_$name.log
git -C /repo worktree remove --force $wt
rm -rf $so
