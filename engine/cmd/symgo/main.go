// symgo: symbolic executor for Go (go/ssa -> SMT-LIB2) and check driver.
package main

import (
	"encoding/json"
	"flag"
	"fmt"
	"go/ast"
	"os"
	"os/exec"
	"path/filepath"
	"regexp"
	"runtime/debug"
	"sort"
	"strconv"
	"strings"
	"sync"
	"time"

	"golang.org/x/tools/go/packages"
	"golang.org/x/tools/go/ssa"
	"golang.org/x/tools/go/ssa/ssautil"

	"verif/engine/sym"
)

var (
	flagProp     = flag.String("prop", "", "property id (e.g. C14)")
	flagTier     = flag.String("tier", "quick", "quick|thorough")
	flagRepo     = flag.String("repo", "/repo", "repository root")
	flagVerif    = flag.String("verif", "/verif", "verification root")
	flagOutRoot  = flag.String("outroot", "", "where evidence/ and out/ are written (default: the verification root); used to run against scratch worktrees")
	flagDeadline = flag.Int("deadline", 0, "run-wide time limit in seconds (0 = none): items not finished by then are inconclusive, violations already confirmed are still reported")
	flagJobs     = flag.Int("jobs", 16, "parallel workers")
	flagOnly     = flag.String("only", "", "regexp: run only harness items whose label matches")
	flagTrace    = flag.Bool("trace", false, "trace instructions")
	flagSolver   = flag.String("solver", "", "override solver for all harnesses")
	flagTimeout  = flag.Int("timeout", 0, "override per-query timeout (s)")
	flagNoReplay = flag.Bool("noreplay", false, "do not replay counterexamples natively")
	flagVerbose  = flag.Bool("v", false, "verbose")
	flagDumpSMT  = flag.String("dumpsmt", "", "write solver dialogue of each item to this directory")
)

type harnessSpec struct {
	Fn         *ssa.Function
	Pkg        *ssa.Package
	RelDir     string
	Params     []string
	Runs       map[string][][]int // tier -> arg tuples
	Solver     string
	TimeoutS   int
	AllowPanic bool
	ExpectSat  bool // witness: at least one violation expected (vacuity guard)
	NoMerge    bool
	LazyAll    bool
	NoEdwards  bool
	BigMode    string
	BigWidth   int
	Reach      []string
	MaxSteps   int
	Init       []string // extra packages whose init is executed (//verif:init)
	Replace    map[string]string
	Tags       string
	Prog       *ssa.Program
}

type item struct {
	H     *harnessSpec
	Args  []int
	Label string
}

type itemResult struct {
	Label      string            `json:"label"`
	Func       string            `json:"func"`
	Args       []int             `json:"args"`
	Solver     string            `json:"solver"`
	Paths      int               `json:"paths"`
	Infeasible int               `json:"infeasible_paths"`
	Forks      int               `json:"forks"`
	Merges     int               `json:"merges"`
	MergeFails int               `json:"merge_fails"`
	Queries    int               `json:"solver_queries"`
	SolverMs   int64             `json:"solver_ms"`
	WallMs     int64             `json:"wall_ms"`
	Terms      int               `json:"terms"`
	Asserts    []*sym.AssertStat `json:"asserts"`
	Reached    map[string]int    `json:"reached"`
	Violations []sym.Violation   `json:"violations,omitempty"`
	Errors     []string          `json:"errors,omitempty"`
	UnknownBr  int               `json:"unknown_branches"`
	States     int               `json:"states"`
	Steps      int               `json:"steps"`
	Funcs      []string          `json:"-"`
	ExpectSat  bool              `json:"expect_sat,omitempty"`
}

var runDeadline time.Time

func outRoot() string {
	if *flagOutRoot != "" {
		return *flagOutRoot
	}
	return *flagVerif
}

func main() {
	flag.Parse()
	if *flagProp == "" {
		fmt.Fprintln(os.Stderr, "usage: symgo -prop Cxx [-tier quick|thorough]")
		os.Exit(2)
	}
	os.Exit(run())
}

func fatal(code int, format string, a ...interface{}) int {
	fmt.Fprintf(os.Stderr, format+"\n", a...)
	return code
}

func run() int {
	t0 := time.Now()
	prop := *flagProp
	hdir := filepath.Join(*flagVerif, "harness", prop)
	rtTmpl, err := os.ReadFile(filepath.Join(*flagVerif, "harness", "_rt", "zz_verif_rt.go.tmpl"))
	if err != nil {
		return fatal(2, "cannot read runtime template: %v", err)
	}
	// collect harness files
	overlay := map[string][]byte{}
	pkgDirs := map[string]bool{}
	err = filepath.Walk(hdir, func(p string, info os.FileInfo, err error) error {
		if err != nil {
			return err
		}
		if info.IsDir() || !strings.HasSuffix(p, ".go") {
			return nil
		}
		rel, _ := filepath.Rel(hdir, p)
		b, err := os.ReadFile(p)
		if err != nil {
			return err
		}
		overlay[filepath.Join(*flagRepo, rel)] = b
		pkgDirs[filepath.Dir(rel)] = true
		return nil
	})
	if err != nil {
		return fatal(2, "cannot read harness dir %s: %v", hdir, err)
	}
	if len(pkgDirs) == 0 {
		return fatal(2, "no harness files under %s", hdir)
	}
	var patterns []string
	for d := range pkgDirs {
		patterns = append(patterns, "./"+d)
		// package name from an existing file in the harness
		name := ""
		for p, b := range overlay {
			if filepath.Dir(p) == filepath.Join(*flagRepo, d) {
				m := regexp.MustCompile(`(?m)^package\s+(\w+)`).FindSubmatch(b)
				if m != nil {
					name = string(m[1])
				}
			}
		}
		overlay[filepath.Join(*flagRepo, d, "zz_verif_rt.go")] = []byte(strings.Replace(string(rtTmpl), "PKGNAME", name, 1))
	}
	sort.Strings(patterns)
	load := func(extraTags string) (*ssa.Program, []*ssa.Package, []*packages.Package, int) {
		tags := "-tags=verif"
		if extraTags != "" {
			tags += "," + extraTags
		}
		cfg := &packages.Config{
			Mode:       packages.LoadAllSyntax,
			Dir:        *flagRepo,
			Overlay:    overlay,
			BuildFlags: []string{tags, "-mod=mod"},
			Env:        append(os.Environ(), "GOFLAGS=-mod=mod", "GOPROXY=off", "GOSUMDB=off", "GOTOOLCHAIN=local"),
		}
		initial, err := packages.Load(cfg, patterns...)
		if err != nil {
			fmt.Fprintf(os.Stderr, "packages.Load: %v\n", err)
			return nil, nil, nil, 1
		}
		nerr := 0
		packages.Visit(initial, nil, func(p *packages.Package) {
			for _, e := range p.Errors {
				fmt.Fprintf(os.Stderr, "load error: %v\n", e)
				nerr++
			}
		})
		if nerr > 0 {
			return nil, nil, nil, nerr
		}
		prog, pkgs := ssautil.AllPackages(initial, ssa.InstantiateGenerics)
		prog.Build()
		return prog, pkgs, initial, 0
	}
	prog, pkgs, initial, nerr := load("")
	if nerr > 0 {
		return fatal(2, "INCONCLUSIVE property=%s: harness or repository does not compile", prop)
	}
	tLoad := time.Since(t0)

	// harness discovery
	var specs []*harnessSpec
	for i, p := range pkgs {
		if p == nil {
			continue
		}
		rel, _ := filepath.Rel(*flagRepo, filepath.Dir(initial[i].GoFiles[0]))
		for _, mem := range p.Members {
			fn, ok := mem.(*ssa.Function)
			if !ok || !strings.HasPrefix(fn.Name(), "Verif"+prop) {
				continue
			}
			sp, err := parseSpec(fn, p, rel)
			if err != nil {
				return fatal(2, "bad directives on %s: %v", fn.Name(), err)
			}
			specs = append(specs, sp)
		}
	}
	tagProgs := map[string][]*ssa.Package{}
	for _, sp := range specs {
		sp.Prog = prog
		if sp.Tags == "" {
			continue
		}
		tp, ok := tagProgs[sp.Tags]
		if !ok {
			p2, pk2, _, nerr2 := load(sp.Tags)
			if nerr2 > 0 {
				return fatal(2, "INCONCLUSIVE property=%s: repository does not compile with tags %s", prop, sp.Tags)
			}
			_ = p2
			tp = pk2
			tagProgs[sp.Tags] = tp
		}
		found := false
		for _, p := range tp {
			if p != nil && p.Pkg.Path() == sp.Pkg.Pkg.Path() {
				if fn := p.Func(sp.Fn.Name()); fn != nil {
					sp.Fn, sp.Pkg, sp.Prog, found = fn, p, p.Prog, true
				}
			}
		}
		if !found {
			return fatal(2, "INCONCLUSIVE property=%s: harness %s not found with tags %s", prop, sp.Fn.Name(), sp.Tags)
		}
	}
	sort.Slice(specs, func(i, j int) bool { return specs[i].Fn.Name() < specs[j].Fn.Name() })
	var items []item
	var only *regexp.Regexp
	if *flagOnly != "" {
		only = regexp.MustCompile(*flagOnly)
	}
	for _, sp := range specs {
		tuples := sp.Runs["quick"]
		if *flagTier == "thorough" {
			tuples = append(append([][]int{}, tuples...), sp.Runs["thorough"]...)
		}
		seen := map[string]bool{}
		for _, tu := range tuples {
			label := sp.Fn.Name()
			for i, a := range tu {
				label += fmt.Sprintf(" %s=%d", sp.Params[i], a)
			}
			if seen[label] {
				continue
			}
			seen[label] = true
			if only != nil && !only.MatchString(label) {
				continue
			}
			items = append(items, item{H: sp, Args: tu, Label: label})
		}
	}
	if len(items) == 0 {
		return fatal(2, "no harness items for %s tier %s", prop, *flagTier)
	}

	// run
	if *flagDeadline > 0 {
		runDeadline = t0.Add(time.Duration(*flagDeadline) * time.Second)
	}
	results := make([]*itemResult, len(items))
	var wg sync.WaitGroup
	ch := make(chan int)
	jobs := *flagJobs
	if jobs > len(items) {
		jobs = len(items)
	}
	var mu sync.Mutex
	for w := 0; w < jobs; w++ {
		wg.Add(1)
		go func() {
			defer wg.Done()
			for idx := range ch {
				if !runDeadline.IsZero() && time.Now().After(runDeadline) {
					results[idx] = &itemResult{Label: items[idx].Label, Func: items[idx].H.Fn.Name(), Args: items[idx].Args, Errors: []string{"DEADLINE not started before the run-wide time limit"}}
					continue
				}
				r := runItem(items[idx].H.Prog, items[idx])
				results[idx] = r
				if *flagVerbose {
					mu.Lock()
					fmt.Printf("  %-60s paths=%d forks=%d merges=%d/%d queries=%d solver=%dms wall=%dms viol=%d err=%d\n", r.Label, r.Paths, r.Forks, r.Merges, r.MergeFails, r.Queries, r.SolverMs, r.WallMs, len(r.Violations), len(r.Errors))
					mu.Unlock()
				}
			}
		}()
	}
	for i := range items {
		ch <- i
	}
	close(ch)
	wg.Wait()

	return report(prop, specs, items, results, overlay, tLoad, time.Since(t0))
}

var rangeRe = regexp.MustCompile(`^(-?\d+)\.\.(-?\d+)$`)

func parseValues(s string) ([]int, error) {
	var out []int
	for _, part := range strings.Split(s, ",") {
		if m := rangeRe.FindStringSubmatch(part); m != nil {
			lo, _ := strconv.Atoi(m[1])
			hi, _ := strconv.Atoi(m[2])
			for v := lo; v <= hi; v++ {
				out = append(out, v)
			}
			continue
		}
		v, err := strconv.Atoi(part)
		if err != nil {
			return nil, fmt.Errorf("bad value %q", part)
		}
		out = append(out, v)
	}
	return out, nil
}

func parseSpec(fn *ssa.Function, pkg *ssa.Package, rel string) (*harnessSpec, error) {
	sp := &harnessSpec{Fn: fn, Pkg: pkg, RelDir: rel, Runs: map[string][][]int{}, Solver: "z3-new", TimeoutS: 60}
	for _, p := range fn.Params {
		sp.Params = append(sp.Params, p.Name())
	}
	var doc string
	if fd, ok := fn.Syntax().(*ast.FuncDecl); ok && fd.Doc != nil {
		for _, c := range fd.Doc.List {
			doc += c.Text + "\n"
		}
	}
	for _, line := range strings.Split(doc, "\n") {
		line = strings.TrimSpace(line)
		if !strings.HasPrefix(line, "//verif:") {
			continue
		}
		f := strings.Fields(strings.TrimPrefix(line, "//verif:"))
		if len(f) == 0 {
			continue
		}
		switch f[0] {
		case "run":
			if len(f) < 2 {
				return nil, fmt.Errorf("run needs a tier")
			}
			tier := f[1]
			vals := map[string][]int{}
			for _, kv := range f[2:] {
				eq := strings.IndexByte(kv, '=')
				if eq < 0 {
					return nil, fmt.Errorf("bad binding %q", kv)
				}
				v, err := parseValues(kv[eq+1:])
				if err != nil {
					return nil, err
				}
				vals[kv[:eq]] = v
			}
			tuples := [][]int{{}}
			for _, p := range sp.Params {
				vs, ok := vals[p]
				if !ok {
					return nil, fmt.Errorf("no values for parameter %s", p)
				}
				var nt [][]int
				for _, t := range tuples {
					for _, v := range vs {
						nt = append(nt, append(append([]int{}, t...), v))
					}
				}
				tuples = nt
			}
			sp.Runs[tier] = append(sp.Runs[tier], tuples...)
		case "solver":
			sp.Solver = f[1]
		case "timeout":
			sp.TimeoutS, _ = strconv.Atoi(f[1])
		case "allowpanic":
			sp.AllowPanic = true
		case "expect":
			sp.ExpectSat = len(f) > 1 && f[1] == "sat"
		case "big":
			sp.BigMode = f[1]
			if len(f) > 2 {
				sp.BigWidth, _ = strconv.Atoi(f[2])
			}
		case "noedwards":
			sp.NoEdwards = true
		case "lazy":
			sp.LazyAll = true
		case "nomerge":
			sp.NoMerge = true
		case "tags":
			sp.Tags = strings.Join(f[1:], ",")
		case "replace":
			if len(f) != 3 {
				return nil, fmt.Errorf("replace needs <function> <harness function>")
			}
			if sp.Replace == nil {
				sp.Replace = map[string]string{}
			}
			sp.Replace[f[1]] = f[2]
		case "reach":
			sp.Reach = append(sp.Reach, f[1:]...)
		case "maxsteps":
			sp.MaxSteps, _ = strconv.Atoi(f[1])
		case "init":
			sp.Init = append(sp.Init, f[1:]...)
		default:
			return nil, fmt.Errorf("unknown directive %q", f[0])
		}
	}
	if len(sp.Runs) == 0 {
		if len(sp.Params) > 0 {
			return nil, fmt.Errorf("parameterised harness without //verif:run")
		}
		sp.Runs["quick"] = [][]int{{}}
	}
	return sp, nil
}

func allowInit(path string) bool {
	deny := []string{"runtime", "internal/", "syscall", "os", "reflect", "sync", "time", "unsafe", "io", "fmt", "testing",
		"unicode", "sort", "math/rand", "crypto/rand", "bufio", "bytes", "context", "log", "path", "regexp", "encoding/json",
		"golang.org/x/sys", "golang.org/x/text", "flag", "net", "hash/", "crypto/internal", "crypto/subtle", "crypto/cipher",
		"crypto/aes", "crypto/des", "crypto/tls", "crypto/x509", "embed", "iter", "slices", "maps", "cmp", "go/", "text/", "html",
		"vendor/", "math/big", "crypto/elliptic", "crypto/ecdsa", "encoding/base64", "encoding/asn1", "compress", "mime", "github.com/stretchr", "github.com/pkg/errors",
		"github.com/davecgh", "github.com/pmezard", "gopkg.in"}
	allowExact := map[string]bool{"io": true, "unicode/utf8": true, "internal/bytealg": false, "internal/itoa": true, "internal/byteorder": true}
	if v, ok := allowExact[path]; ok {
		return v
	}
	for _, d := range deny {
		if path == d || strings.HasPrefix(path, d+"/") || (strings.HasSuffix(d, "/") && strings.HasPrefix(path, d)) {
			return false
		}
	}
	return true
}

func runItem(prog *ssa.Program, it item) (res *itemResult) {
	t0 := time.Now()
	res = &itemResult{Label: it.Label, Func: it.H.Fn.Name(), Args: it.Args, ExpectSat: it.H.ExpectSat}
	defer func() {
		if r := recover(); r != nil {
			res.Errors = append(res.Errors, fmt.Sprintf("INTERNAL engine panic: %v", r))
			if *flagVerbose {
				fmt.Fprintf(os.Stderr, "%s\n", debug.Stack())
			}
		}
		res.WallMs = time.Since(t0).Milliseconds()
	}()
	ctx := sym.NewCtx()
	solverKind := it.H.Solver
	if *flagSolver != "" {
		solverKind = *flagSolver
	}
	to := it.H.TimeoutS
	if *flagTimeout > 0 {
		to = *flagTimeout
	}
	res.Solver = solverKind
	solver, err := sym.NewSolver(ctx, solverKind, to*1000)
	if err != nil {
		res.Errors = append(res.Errors, "cannot start solver: "+err.Error())
		return
	}
	defer solver.Close()
	if *flagDumpSMT != "" {
		os.MkdirAll(*flagDumpSMT, 0o755)
		f, _ := os.Create(filepath.Join(*flagDumpSMT, strings.NewReplacer(" ", "_", "=", "").Replace(it.Label)+".smt2"))
		defer f.Close()
		solver.Log = f
	}
	ex := sym.NewExec(prog, ctx, solver)
	ex.Trace = *flagTrace
	ex.HarnessPk = it.H.Pkg
	ex.RepoDir = *flagRepo
	ex.Deadline = runDeadline
	ex.AllowPanic = it.H.AllowPanic
	ex.NoMerge = it.H.NoMerge
	ex.LazyAll = it.H.LazyAll
	ex.NoEdwards = it.H.NoEdwards
	ex.BigMode, ex.BigWidth = it.H.BigMode, it.H.BigWidth
	for k, v := range it.H.Replace {
		if !strings.Contains(k, ".") {
			k = it.H.Pkg.Pkg.Path() + "." + k
		}
		ex.ReplaceByGo[k] = v
	}
	if it.H.MaxSteps > 0 {
		ex.MaxSteps = it.H.MaxSteps
	}
	ex.InitPackage(it.H.Pkg, func(path string) bool {
		for _, p := range it.H.Init {
			if p == path {
				return true
			}
		}
		return allowInit(path)
	})
	if *flagVerbose {
		for p, w := range ex.Suspects() {
			if !strings.HasPrefix(w, "not initialised") {
				fmt.Fprintf(os.Stderr, "  init of %s incomplete: %s\n", p, w)
			}
		}
	}
	args := make([]sym.Value, len(it.Args))
	for i, a := range it.Args {
		args[i] = ctx.BV(64, uint64(int64(a)))
	}
	ex.RunHarness(it.H.Fn, args)
	res.Paths = ex.PathsDone
	res.Infeasible = ex.Infeasibles
	res.Forks = ex.Forks
	res.Merges = ex.Merges
	res.MergeFails = ex.MergeFails
	res.Queries = solver.Queries
	res.SolverMs = solver.TimeSpent.Milliseconds()
	res.Terms = ctx.NumTerms()
	res.Reached = ex.Reached
	res.Violations = ex.Violations
	res.Errors = ex.Errors
	res.UnknownBr = ex.UnknownBr
	res.States = ex.StatesCreated()
	res.Steps = ex.TotalSteps
	var ids []string
	for id := range ex.Asserts {
		ids = append(ids, id)
	}
	sort.Strings(ids)
	for _, id := range ids {
		res.Asserts = append(res.Asserts, ex.Asserts[id])
	}
	for f := range ex.Funcs {
		res.Funcs = append(res.Funcs, f)
	}
	for _, rid := range it.H.Reach {
		if ex.Reached[rid] == 0 {
			res.Errors = append(res.Errors, "VACUOUS: reach witness "+rid+" not reached")
		}
	}
	if ex.PathsDone == 0 {
		res.Errors = append(res.Errors, "VACUOUS: no path completed")
	}
	return
}

// ---------------------------------------------------------------- reporting

type knownFinding struct {
	Kind string // known | fixed
	Prop string
	Key  string
	Text string
}

func loadKnown(path string) []knownFinding {
	b, err := os.ReadFile(path)
	if err != nil {
		return nil
	}
	var out []knownFinding
	for _, line := range strings.Split(string(b), "\n") {
		line = strings.TrimSpace(line)
		if line == "" || strings.HasPrefix(line, "#") {
			continue
		}
		var k knownFinding
		switch {
		case strings.HasPrefix(line, "known:"):
			k.Kind = "known"
			line = strings.TrimSpace(strings.TrimPrefix(line, "known:"))
		case strings.HasPrefix(line, "fixed:"):
			k.Kind = "fixed"
			line = strings.TrimSpace(strings.TrimPrefix(line, "fixed:"))
		default:
			continue
		}
		f := strings.Fields(line)
		rest := []string{}
		for _, w := range f {
			switch {
			case strings.HasPrefix(w, "property="):
				k.Prop = strings.TrimPrefix(w, "property=")
			case strings.HasPrefix(w, "key=") && k.Key == "":
				k.Key = strings.TrimPrefix(w, "key=")
			default:
				rest = append(rest, w)
			}
		}
		k.Text = strings.Join(rest, " ")
		out = append(out, k)
	}
	return out
}

func report(prop string, specs []*harnessSpec, items []item, results []*itemResult, overlay map[string][]byte, tLoad, wall time.Duration) int {
	known := loadKnown(filepath.Join(*flagVerif, "KNOWN_FINDINGS.txt"))
	exit := 0
	inconclusive := []string{}
	obligations, discharged, folded, queries, paths := 0, 0, 0, 0, 0
	states, steps := 0, 0
	var solverMs int64
	funcs := map[string]bool{}
	var samples []interface{}
	violations := 0
	knownPrinted := map[string]bool{}
	replayed := 0
	distinct := map[string]bool{}
	confirmedKeys := map[string]bool{}
	for i, r := range results {
		queries += r.Queries
		solverMs += r.SolverMs
		paths += r.Paths
		states += r.States
		steps += r.Steps
		for _, f := range r.Funcs {
			funcs[f] = true
		}
		for _, e := range r.Errors {
			inconclusive = append(inconclusive, r.Label+": "+e)
		}
		for _, a := range r.Asserts {
			obligations += a.Checked
			discharged += a.Folded + a.Solver
			folded += a.Folded
			if a.Solver > 0 {
				distinct[r.Label+"/"+a.ID] = true
			}
		}
		if r.ExpectSat {
			// witness harness: must produce at least one violation
			if len(r.Violations) == 0 && len(r.Errors) == 0 {
				inconclusive = append(inconclusive, r.Label+": VACUOUS: witness harness produced no counterexample")
			}
			continue
		}
		for vi, v := range r.Violations {
			key := r.Func + ":" + v.ID
			if confirmedKeys[key] || replayed >= 8 {
				continue // same obligation already reproduced (or replay budget used): not replayed again
			}
			rp := ""
			confirmed := false
			detail := ""
			if strings.HasPrefix(v.Msg, "asm ") && !*flagNoReplay {
				// memory-safety / control-flow violation of the assembly text found by the interpreter:
				// native execution cannot confirm a stray read; it is reported on the interpreter's evidence
				dir := filepath.Join(outRoot(), "out", "replay", prop)
				os.MkdirAll(dir, 0o755)
				rp = filepath.Join(dir, strings.NewReplacer(" ", "_", "=", "").Replace(r.Label)+fmt.Sprintf("_%d.asm.txt", vi))
				os.WriteFile(rp, []byte(v.Msg+"\n"), 0o644)
				confirmed, detail = true, v.Msg
			} else if !*flagNoReplay {
				rp, confirmed, detail = replay(prop, items[i], r, vi, v, overlay)
				replayed++
			}
			if *flagNoReplay {
				fmt.Printf("COUNTEREXAMPLE (not replayed) property=%s %s %s model=%v\n", prop, r.Label, v.ID, v.Model)
				exit = max(exit, 2)
				continue
			}
			if !confirmed {
				inconclusive = append(inconclusive, fmt.Sprintf("%s: counterexample for %s did not reproduce natively (%s) replay=%s", r.Label, v.ID, detail, rp))
				continue
			}
			isKnown := false
			for _, k := range known {
				if k.Kind == "known" && k.Prop == prop && k.Key == key {
					isKnown = true
					if !knownPrinted[key] {
						knownPrinted[key] = true
						fmt.Printf("KNOWN-FINDING: property=%s %s (%s; replay=%s)\n", prop, k.Text, key, rp)
					}
				}
			}
			if isKnown {
				continue
			}
			violations++
			confirmedKeys[key] = true
			fmt.Printf("VIOLATION property=%s replay=%s\n", prop, rp)
			fmt.Printf("  harness=%s obligation=%s detail=%s pos=%s model=%v\n", r.Label, v.ID, detail, v.Pos, v.Model)
			exit = 1
		}
	}
	for _, r := range results {
		if len(samples) < 12 {
			s := map[string]interface{}{"harness": r.Label, "solver": r.Solver, "paths": r.Paths, "queries": r.Queries, "solver_ms": r.SolverMs}
			var as []string
			for _, a := range r.Asserts {
				as = append(as, fmt.Sprintf("%s: reached=%d folded=%d unsat=%d sat=%d unknown=%d max_ms=%d", a.ID, a.Checked, a.Folded, a.Solver, a.Sat, a.Unknown, a.MaxMs))
			}
			s["obligations"] = as
			samples = append(samples, s)
		}
	}
	if len(inconclusive) > 0 && exit == 0 {
		exit = 2
	}
	for _, m := range inconclusive {
		fmt.Printf("INCONCLUSIVE property=%s %s\n", prop, m)
	}
	var fl []string
	for f := range funcs {
		if strings.Contains(f, "wollac") || strings.Contains(f, "iotaledger") || strings.Contains(f, "edwards25519") {
			fl = append(fl, f)
		}
	}
	sort.Strings(fl)
	// evidence
	meta := readMeta(filepath.Join(*flagVerif, "harness", prop, "META.json"))
	seed := 0
	if s := os.Getenv("VERIF_SEED"); s != "" {
		seed, _ = strconv.Atoi(s)
	}
	ev := map[string]interface{}{
		"property_id": prop,
		"tier":        *flagTier,
		"seed":        seed,
		"level":       "model_checking",
		"wall_s":      wall.Seconds(),
		"violations":  violations,
		"assumptions": meta.Assumptions,
		"coverage": map[string]interface{}{
			"states":              states,
			"transitions":         steps,
			"traces_validated_against_impl": replayed,
			"evaluations":         queries,
			"distinct_nontrivial": len(distinct),
			"rule":                "states = symbolic states created by the executor (forks and merges included); transitions = SSA instructions executed symbolically; traces_validated_against_impl = counterexamples replayed against the natively compiled repository; evaluations = SMT queries issued (branch feasibility + obligations); distinct_nontrivial = distinct (harness instance, obligation id) pairs that were NOT folded to true by the term builder (hash-consing / normalisation) and were decided unsat by the solver",
			"samples":             samples,
			"obligations":         obligations,
			"discharged":          discharged,
			"folded_by_term_builder": folded,
			"harness_instances":   len(items),
			"paths_explored":      paths,
			"solver_time_s":       float64(solverMs) / 1000,
			"load_ssa_s":          tLoad.Seconds(),
			"functions_encoded":   fl,
			"bounds":              meta.Bounds,
			"outside_bounds":      meta.Outside,
			"stubs":               meta.Stubs,
			"counterexamples_replayed": replayed,
			"inconclusive":        inconclusive,
			"explanation":         meta.Explanation,
			"exhaustive":          false,
		},
	}
	os.MkdirAll(filepath.Join(outRoot(), "evidence"), 0o755)
	b, _ := json.MarshalIndent(ev, "", " ")
	if err := os.WriteFile(filepath.Join(outRoot(), "evidence", prop+".json"), b, 0o644); err != nil {
		fmt.Fprintf(os.Stderr, "cannot write evidence: %v\n", err)
		exit = max(exit, 2)
	}
	fmt.Printf("%s tier=%s items=%d paths=%d obligations=%d discharged=%d (folded %d) queries=%d solver=%.1fs wall=%.1fs exit=%d\n",
		prop, *flagTier, len(items), paths, obligations, discharged, folded, queries, float64(solverMs)/1000, wall.Seconds(), exit)
	return exit
}

type metaT struct {
	Assumptions []string `json:"assumptions"`
	Bounds      []string `json:"bounds"`
	Outside     []string `json:"outside_bounds"`
	Stubs       []string `json:"stubs"`
	Explanation string   `json:"explanation"`
}

func readMeta(p string) metaT {
	var m metaT
	b, err := os.ReadFile(p)
	if err == nil {
		json.Unmarshal(b, &m)
	}
	if m.Assumptions == nil {
		m.Assumptions = []string{}
	}
	return m
}

// replay runs the harness natively with the model values and reports whether a
// failed assertion or a panic is observed.
func replay(prop string, it item, r *itemResult, vi int, v sym.Violation, overlay map[string][]byte) (path string, confirmed bool, detail string) {
	dir := filepath.Join(outRoot(), "out", "replay", prop)
	os.MkdirAll(dir, 0o755)
	base := strings.NewReplacer(" ", "_", "=", "").Replace(it.Label) + fmt.Sprintf("_%d", vi)
	modelPath := filepath.Join(dir, base+".json")
	mb, _ := json.MarshalIndent(v.Model, "", " ")
	os.WriteFile(modelPath, mb, 0o644)
	// overlay: harness files + runtime + generated test
	ov := map[string]string{}
	for p, b := range overlay {
		real := filepath.Join(dir, "src", strings.TrimPrefix(p, *flagRepo))
		os.MkdirAll(filepath.Dir(real), 0o755)
		os.WriteFile(real, b, 0o644)
		ov[p] = real
	}
	var args []string
	for _, a := range it.Args {
		args = append(args, strconv.Itoa(a))
	}
	pkgName := it.H.Pkg.Pkg.Name()
	test := fmt.Sprintf(`//go:build verif

package %s

import "testing"

func TestVerifReplay(t *testing.T) {
	%s(%s)
	if len(verifFailed) > 0 {
		t.Fatalf("violated: %%v", verifFailed)
	}
}
`, pkgName, it.H.Fn.Name(), strings.Join(args, ", "))
	testVirtual := filepath.Join(*flagRepo, it.H.RelDir, "zz_verif_replay_test.go")
	testReal := filepath.Join(dir, base+"_test.go.txt")
	os.WriteFile(testReal, []byte(test), 0o644)
	ov[testVirtual] = testReal
	ovPath := filepath.Join(dir, base+".overlay.json")
	ob, _ := json.Marshal(map[string]interface{}{"Replace": ov})
	os.WriteFile(ovPath, ob, 0o644)
	cmdline := fmt.Sprintf("cd %s && VERIF_REPLAY=%s go test -tags verif%s -vet=off -count=1 -overlay %s -run '^TestVerifReplay$' ./%s", *flagRepo, modelPath, map[bool]string{true: "," + it.H.Tags, false: ""}[it.H.Tags != ""], ovPath, it.H.RelDir)
	os.WriteFile(filepath.Join(dir, base+".sh"), []byte("#!/bin/sh\nexport GOFLAGS=-mod=mod GOPROXY=off GOSUMDB=off GOTOOLCHAIN=local\n"+cmdline+"\n"), 0o755)
	path = filepath.Join(dir, base+".sh")
	for variant := 0; variant < 2; variant++ {
		tagArg := "verif"
		if it.H.Tags != "" {
			tagArg += "," + it.H.Tags
		}
		cmd := exec.Command("timeout", "300", "go", "test", "-tags", tagArg, "-vet=off", "-count=1", "-overlay", ovPath, "-run", "^TestVerifReplay$", "./"+it.H.RelDir)
		cmd.Dir = *flagRepo
		cmd.Env = append(os.Environ(), "VERIF_REPLAY="+modelPath, fmt.Sprintf("VERIF_VARIANT=%d", variant), "GOFLAGS=-mod=mod", "GOPROXY=off", "GOSUMDB=off", "GOTOOLCHAIN=local")
		out, err := cmd.CombinedOutput()
		os.WriteFile(filepath.Join(dir, fmt.Sprintf("%s.v%d.log", base, variant)), out, 0o644)
		so := string(out)
		switch {
		case strings.Contains(so, "VERIF-ASSUME-FAILED"):
			detail = "native run left the modelled path (assumption failed)"
		case strings.Contains(so, "VERIF-ASSERT-FAILED"):
			m := regexp.MustCompile(`VERIF-ASSERT-FAILED (\S+)`).FindStringSubmatch(so)
			if variant > 0 {
				os.WriteFile(path, []byte("#!/bin/sh\nexport GOFLAGS=-mod=mod GOPROXY=off GOSUMDB=off GOTOOLCHAIN=local VERIF_VARIANT=1\n"+cmdline+"\n"), 0o755)
			}
			return path, true, "native assertion failed: " + m[1]
		case strings.Contains(so, "symbolic only"):
			return path, false, "harness is not natively executable (symbolic-only intrinsic)"
		case strings.Contains(so, "panic:") && err != nil:
			m := regexp.MustCompile(`panic: ([^\n]*)`).FindStringSubmatch(so)
			return path, true, "native panic: " + m[1]
		case err == nil:
			detail = "native run passed"
		default:
			return path, false, "native run failed to build or run: " + firstLine(so)
		}
	}
	return path, false, detail
}

func firstLine(s string) string {
	s = strings.TrimSpace(s)
	if i := strings.IndexByte(s, '\n'); i >= 0 {
		return s[:i]
	}
	return s
}
