package sym

import (
	"fmt"
	"go/build/constraint"
	"go/types"
	"os"
	"path/filepath"
	"regexp"
	"strconv"
	"strings"

	"golang.org/x/tools/go/ssa"
)

// Symbolic interpreter for the Go-assembler (amd64) text of body-less functions.
// Supported: MOVQ XORQ ANDQ ORQ NOTQ ADDQ SUBQ CMPQ DECQ INCQ XCHGQ JL JNZ JMP RET with operands
// $imm, REG, disp(REG), disp(REG)(REG*8), name+off(FP). Registers hold 64-bit terms or
// pointers into the objects passed as arguments; every memory access must go through such a
// pointer, be 8-byte aligned and stay inside the pointee; conditional jumps need ground flags.

type asmInstr struct {
	op   string
	args []string
	line int
}

type asmFunc struct {
	name      string
	file      string
	frame     int
	argsSize  int
	instrs    []asmInstr
	labels    map[string]int
	buildExpr string
}

type asmVal struct {
	t   *Term // scalar
	ptr *Ptr  // pointer to an array object ...
	off int64 // ... plus byte offset
}

var textRe = regexp.MustCompile(`^TEXT\s+·(\w+)\(SB\)\s*,\s*([\w|]+)\s*,\s*\$(-?\d+)(?:-(\d+))?`)

func parseAsmFile(path string) ([]*asmFunc, error) {
	b, err := os.ReadFile(path)
	if err != nil {
		return nil, err
	}
	var out []*asmFunc
	var cur *asmFunc
	build := ""
	for ln, raw := range strings.Split(string(b), "\n") {
		line := raw
		if strings.HasPrefix(strings.TrimSpace(line), "//go:build") {
			build = strings.TrimSpace(line)
		}
		if i := strings.Index(line, "//"); i >= 0 {
			line = line[:i]
		}
		line = strings.TrimSpace(line)
		if line == "" || strings.HasPrefix(line, "#") {
			continue
		}
		if m := textRe.FindStringSubmatch(line); m != nil {
			cur = &asmFunc{name: m[1], file: path, labels: map[string]int{}, buildExpr: build}
			cur.frame, _ = strconv.Atoi(m[3])
			cur.argsSize, _ = strconv.Atoi(m[4])
			out = append(out, cur)
			continue
		}
		if cur == nil {
			continue
		}
		if strings.HasSuffix(line, ":") && !strings.ContainsAny(line, " \t") {
			cur.labels[strings.TrimSuffix(line, ":")] = len(cur.instrs)
			continue
		}
		f := strings.Fields(line)
		in := asmInstr{op: f[0], line: ln + 1}
		rest := strings.TrimSpace(strings.TrimPrefix(line, f[0]))
		if rest != "" {
			for _, a := range strings.Split(rest, ",") {
				in.args = append(in.args, strings.TrimSpace(a))
			}
		}
		cur.instrs = append(cur.instrs, in)
	}
	return out, nil
}

func (ex *Exec) asmBuildTags() map[string]bool {
	return map[string]bool{"amd64": true, "gc": true, "linux": true, "verif": true, "unix": true, "go1.17": true}
}

// findAsm locates the assembler body of a body-less function.
func (ex *Exec) findAsm(fn *ssa.Function) (*asmFunc, error) {
	if af, ok := ex.asmCache[fn]; ok {
		return af, nil
	}
	pos := ex.Prog.Fset.Position(fn.Pos())
	if pos.Filename == "" {
		return nil, fmt.Errorf("no position")
	}
	if ex.RepoDir == "" || !strings.HasPrefix(pos.Filename, ex.RepoDir+"/") {
		return nil, fmt.Errorf("assembly outside the repository is not interpreted")
	}
	dir := filepath.Dir(pos.Filename)
	files, _ := filepath.Glob(filepath.Join(dir, "*.s"))
	for _, f := range files {
		fs, err := parseAsmFile(f)
		if err != nil {
			continue
		}
		for _, af := range fs {
			if af.name != fn.Name() {
				continue
			}
			if af.buildExpr != "" {
				x, err := constraint.Parse(af.buildExpr)
				if err == nil {
					tags := ex.asmBuildTags()
					if !x.Eval(func(tag string) bool { return tags[tag] }) {
						continue
					}
				}
			}
			ex.asmCache[fn] = af
			return af, nil
		}
	}
	return nil, fmt.Errorf("no assembler text found for %s", fn)
}

var memRe = regexp.MustCompile(`^(-?\d+)?\((\w+)\)(?:\((\w+)\*(\d+)\))?$`)
var fpRe = regexp.MustCompile(`^(\w+)\+(\d+)\(FP\)$`)

func asmErr(af *asmFunc, in asmInstr, format string, a ...interface{}) error {
	return unsupported("asm %s:%d (%s): %s", filepath.Base(af.file), in.line, in.op, fmt.Sprintf(format, a...))
}

// runAsm executes the assembler function on the given arguments.
func (ex *Exec) runAsm(s *State, fn *ssa.Function, af *asmFunc, args []Value) (Value, error) {
	c := ex.Ctx
	if af.frame != 0 {
		return nil, unsupported("asm %s: non-zero frame size %d", af.name, af.frame)
	}
	sig := fn.Signature
	if af.argsSize != 8*sig.Params().Len() || sig.Results().Len() != 0 {
		return nil, &goPanic{fmt.Sprintf("asm %s: argument frame $%d does not match the Go declaration (%d pointer-sized parameters)", af.name, af.argsSize, sig.Params().Len())}
	}
	regs := map[string]asmVal{}
	elemCount := func(p Ptr) (int, error) {
		o := s.Heap[p.Obj]
		if o == nil {
			return 0, unsupported("asm: dangling pointer")
		}
		v, err := ex.loadPath(o.V, p.Path)
		if err != nil {
			return 0, err
		}
		av, ok := v.(*ArrayV)
		if !ok {
			return 0, unsupported("asm: pointer argument does not point to an array")
		}
		return len(av.E), nil
	}
	// flags: last comparison / arithmetic result
	var flagA, flagB *Term // for CMPQ a,b : compares a with b ; for arithmetic: result vs 0
	haveCmp := false
	var flagRes *Term

	readOp := func(in asmInstr, a string) (asmVal, error) {
		if strings.HasPrefix(a, "$") {
			v, err := strconv.ParseInt(strings.TrimPrefix(a, "$"), 0, 64)
			if err != nil {
				u, err2 := strconv.ParseUint(strings.TrimPrefix(a, "$"), 0, 64)
				if err2 != nil {
					return asmVal{}, asmErr(af, in, "bad immediate %s", a)
				}
				v = int64(u)
			}
			return asmVal{t: c.BV(64, uint64(v))}, nil
		}
		if m := fpRe.FindStringSubmatch(a); m != nil {
			off, _ := strconv.Atoi(m[2])
			if off%8 != 0 || off/8 >= len(args) {
				return asmVal{}, &goPanic{fmt.Sprintf("asm %s:%d: argument offset %d outside the frame", af.name, in.line, off)}
			}
			if pn := sig.Params().At(off / 8).Name(); pn != m[1] {
				return asmVal{}, &goPanic{fmt.Sprintf("asm %s:%d: %s+%d(FP) names parameter %q of the Go declaration", af.name, in.line, m[1], off, pn)}
			}
			switch v := args[off/8].(type) {
			case Ptr:
				p := v
				return asmVal{ptr: &p}, nil
			case *Term:
				return asmVal{t: c.ZExt(v, 64)}, nil
			}
			return asmVal{}, asmErr(af, in, "unsupported argument kind")
		}
		if m := memRe.FindStringSubmatch(a); m != nil {
			p, err := effAddr(ex, s, af, in, regs, m, elemCount)
			if err != nil {
				return asmVal{}, err
			}
			v, err := ex.load(s, p)
			if err != nil {
				return asmVal{}, err
			}
			t, ok := v.(*Term)
			if !ok || t.S.W != 64 {
				return asmVal{}, asmErr(af, in, "load of non-64-bit cell")
			}
			return asmVal{t: t}, nil
		}
		if v, ok := regs[a]; ok {
			return v, nil
		}
		if isReg(a) {
			return asmVal{}, asmErr(af, in, "read of uninitialised register %s", a)
		}
		return asmVal{}, asmErr(af, in, "unsupported operand %q", a)
	}
	writeOp := func(in asmInstr, a string, v asmVal) error {
		if m := memRe.FindStringSubmatch(a); m != nil {
			if v.t == nil {
				return asmErr(af, in, "store of a pointer to memory")
			}
			p, err := effAddr(ex, s, af, in, regs, m, elemCount)
			if err != nil {
				return err
			}
			return ex.store(s, p, v.t)
		}
		if isReg(a) {
			regs[a] = v
			return nil
		}
		return asmErr(af, in, "unsupported destination %q", a)
	}
	scalar := func(in asmInstr, v asmVal) (*Term, error) {
		if v.t == nil {
			return nil, asmErr(af, in, "arithmetic on a pointer")
		}
		return v.t, nil
	}
	pc := 0
	steps := 0
	for {
		steps++
		if steps > 20_000_000 {
			return nil, &execError{"UNWIND asm step limit exceeded"}
		}
		if pc >= len(af.instrs) {
			return nil, &goPanic{fmt.Sprintf("asm %s: fell off the end of the function", af.name)}
		}
		in := af.instrs[pc]
		pc++
		switch in.op {
		case "RET":
			return nil, nil
		case "MOVQ":
			v, err := readOp(in, in.args[0])
			if err != nil {
				return nil, err
			}
			if err := writeOp(in, in.args[1], v); err != nil {
				return nil, err
			}
		case "XORQ", "ANDQ", "ORQ", "ADDQ", "SUBQ":
			a, err := readOp(in, in.args[0])
			if err != nil {
				return nil, err
			}
			b, err := readOp(in, in.args[1])
			if err != nil {
				return nil, err
			}
			at, err := scalar(in, a)
			if err != nil {
				return nil, err
			}
			bt, err := scalar(in, b)
			if err != nil {
				return nil, err
			}
			var r *Term
			switch in.op {
			case "XORQ":
				r = c.Xor(bt, at)
			case "ANDQ":
				r = c.And(bt, at)
			case "ORQ":
				r = c.Or(bt, at)
			case "ADDQ":
				r = c.Add(bt, at)
			case "SUBQ":
				r = c.Sub(bt, at)
			}
			if err := writeOp(in, in.args[1], asmVal{t: r}); err != nil {
				return nil, err
			}
			flagRes, haveCmp = r, false
		case "NOTQ":
			a, err := readOp(in, in.args[0])
			if err != nil {
				return nil, err
			}
			at, err := scalar(in, a)
			if err != nil {
				return nil, err
			}
			if err := writeOp(in, in.args[0], asmVal{t: c.Not(at)}); err != nil {
				return nil, err
			}
		case "DECQ", "INCQ":
			a, err := readOp(in, in.args[0])
			if err != nil {
				return nil, err
			}
			at, err := scalar(in, a)
			if err != nil {
				return nil, err
			}
			d := c.BV(64, 1)
			var r *Term
			if in.op == "DECQ" {
				r = c.Sub(at, d)
			} else {
				r = c.Add(at, d)
			}
			if err := writeOp(in, in.args[0], asmVal{t: r}); err != nil {
				return nil, err
			}
			flagRes, haveCmp = r, false
		case "XCHGQ":
			a, err := readOp(in, in.args[0])
			if err != nil {
				return nil, err
			}
			b, err := readOp(in, in.args[1])
			if err != nil {
				return nil, err
			}
			if err := writeOp(in, in.args[0], b); err != nil {
				return nil, err
			}
			if err := writeOp(in, in.args[1], a); err != nil {
				return nil, err
			}
		case "CMPQ":
			a, err := readOp(in, in.args[0])
			if err != nil {
				return nil, err
			}
			b, err := readOp(in, in.args[1])
			if err != nil {
				return nil, err
			}
			at, err := scalar(in, a)
			if err != nil {
				return nil, err
			}
			bt, err := scalar(in, b)
			if err != nil {
				return nil, err
			}
			flagA, flagB, haveCmp = at, bt, true
		case "JL", "JNZ", "JNE", "JMP", "JGE", "JZ", "JEQ", "JLE", "JG", "JLT", "JGT":
			var cond *Term
			switch in.op {
			case "JMP":
				cond = c.True()
			case "JL", "JGE", "JLT":
				if !haveCmp {
					return nil, asmErr(af, in, "signed jump without a preceding CMPQ")
				}
				cond = c.Cmp(OSlt, flagA, flagB)
				if in.op == "JGE" {
					cond = c.BNot(cond)
				}
			case "JLE", "JG", "JGT":
				if !haveCmp {
					return nil, asmErr(af, in, "signed jump without a preceding CMPQ")
				}
				cond = c.Cmp(OSle, flagA, flagB)
				if in.op != "JLE" {
					cond = c.BNot(cond)
				}
			default:
				var z *Term
				if haveCmp {
					z = c.Eq(flagA, flagB)
				} else if flagRes != nil {
					z = c.Eq(flagRes, c.BV(64, 0))
				} else {
					return nil, asmErr(af, in, "conditional jump without flags")
				}
				if in.op == "JNZ" || in.op == "JNE" {
					cond = c.BNot(z)
				} else {
					cond = z
				}
			}
			if !cond.IsConst() {
				return nil, &goPanic{fmt.Sprintf("asm %s:%d: control flow depends on data (flags not ground)", af.name, in.line)}
			}
			if cond.IsTrue() {
				tgt, ok := af.labels[in.args[0]]
				if !ok {
					return nil, asmErr(af, in, "unknown label %s", in.args[0])
				}
				pc = tgt
			}
		default:
			return nil, asmErr(af, in, "unsupported mnemonic")
		}
	}
}

func isReg(a string) bool {
	switch a {
	case "AX", "BX", "CX", "DX", "SI", "DI", "BP", "R8", "R9", "R10", "R11", "R12", "R13", "R14", "R15":
		return true
	}
	return false
}

func effAddr(ex *Exec, s *State, af *asmFunc, in asmInstr, regs map[string]asmVal, m []string, elemCount func(Ptr) (int, error)) (Ptr, error) {
	disp := int64(0)
	if m[1] != "" {
		disp, _ = strconv.ParseInt(m[1], 10, 64)
	}
	base, ok := regs[m[2]]
	if !ok || base.ptr == nil {
		return Ptr{}, &goPanic{fmt.Sprintf("asm %s:%d: memory access through %s, which does not hold a pointer argument", af.name, in.line, m[2])}
	}
	off := base.off + disp
	if m[3] != "" {
		idx, ok := regs[m[3]]
		if !ok || idx.t == nil || !idx.t.IsConst() {
			return Ptr{}, &goPanic{fmt.Sprintf("asm %s:%d: index register %s is not a ground integer", af.name, in.line, m[3])}
		}
		sc, _ := strconv.ParseInt(m[4], 10, 64)
		off += idx.t.SInt64() * sc
	}
	n, err := elemCount(*base.ptr)
	if err != nil {
		return Ptr{}, err
	}
	if off%8 != 0 || off < 0 || off > int64(8*(n-1)) {
		return Ptr{}, &goPanic{fmt.Sprintf("asm %s:%d: access at byte offset %d outside the %d-word buffer (or unaligned)", af.name, in.line, off, n)}
	}
	return Ptr{Obj: base.ptr.Obj, Path: appendPath(base.ptr.Path, PE{I: int(off / 8)})}, nil
}

// buildConstraintTerm: the //go:build expression of a file as a Bool term over tag variables.
func (ex *Exec) buildConstraintTerm(path string) (*Term, error) {
	b, err := os.ReadFile(path)
	if err != nil {
		return nil, unsupported("cannot read %s", path)
	}
	c := ex.Ctx
	tagVar := func(tag string) *Term {
		v := c.Var("tag!"+tag, SBool)
		if !ex.tagSeen[tag] {
			ex.tagSeen[tag] = true
			ex.TagSyms = append(ex.TagSyms, SymRec{Name: "tag!" + tag, Kind: "bool", Terms: []*Term{v}})
		}
		return v
	}
	var tr func(e constraint.Expr) *Term
	tr = func(e constraint.Expr) *Term {
		switch v := e.(type) {
		case *constraint.AndExpr:
			return c.BAnd(tr(v.X), tr(v.Y))
		case *constraint.OrExpr:
			return c.BOr(tr(v.X), tr(v.Y))
		case *constraint.NotExpr:
			return c.BNot(tr(v.X))
		case *constraint.TagExpr:
			return tagVar(v.Tag)
		}
		return c.False()
	}
	res := c.True()
	if strings.HasSuffix(strings.TrimSuffix(strings.TrimSuffix(path, ".go"), ".s"), "_amd64") {
		res = tagVar("amd64")
	}
	for _, line := range strings.Split(string(b), "\n") {
		line = strings.TrimSpace(line)
		if strings.HasPrefix(line, "package ") {
			break
		}
		if constraint.IsGoBuild(line) || constraint.IsPlusBuild(line) {
			x, err := constraint.Parse(line)
			if err != nil {
				return nil, unsupported("bad build constraint in %s", path)
			}
			res = c.BAnd(res, tr(x))
			if constraint.IsGoBuild(line) {
				break
			}
		}
	}
	return res, nil
}

var _ = types.Typ
