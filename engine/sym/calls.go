package sym

import (
	"fmt"
	"go/types"
	"strings"

	"golang.org/x/tools/go/ssa"
)

func (ex *Exec) prepareCall(s *State, fr *Frame, cc *ssa.CallCommon) (Value, []Value, error) {
	var args []Value
	var fnv Value
	if cc.IsInvoke() {
		rv, err := ex.get(s, fr, cc.Value)
		if err != nil {
			return nil, nil, err
		}
		iv, ok := rv.(IfaceV)
		if !ok {
			return nil, nil, &execError{fmt.Sprintf("INTERNAL invoke on %T", rv)}
		}
		if iv.T == nil {
			return nil, nil, &goPanic{"nil pointer dereference (method call on nil interface)"}
		}
		if pt, ok := iv.T.(*types.Pointer); ok && pt.Elem() == hashType {
			name := cc.Method.Name()
			fnv = &FuncV{Native: func(ex *Exec, s *State, cc *ssa.CallCommon, a []Value) (Value, *Fork, error) {
				return ex.hashMethod(s, name, a)
			}}
		} else {
			fn, err := ex.lookupMethod(iv.T, cc.Method)
			if err != nil {
				return nil, nil, err
			}
			fnv = &FuncV{Fn: fn}
		}
		args = append(args, iv.V)
	} else {
		v, err := ex.get(s, fr, cc.Value)
		if err != nil {
			return nil, nil, err
		}
		fnv = v
	}
	for _, a := range cc.Args {
		v, err := ex.get(s, fr, a)
		if err != nil {
			if s.Lenient {
				v = Poison{"arg"}
			} else {
				return nil, nil, err
			}
		}
		args = append(args, v)
	}
	return fnv, args, nil
}

func (ex *Exec) lookupMethod(T types.Type, m *types.Func) (*ssa.Function, error) {
	ms := ex.Prog.MethodSets.MethodSet(T)
	sel := ms.Lookup(m.Pkg(), m.Name())
	if sel == nil {
		return nil, unsupported("method %s not found on %s", m.Name(), T)
	}
	fn := ex.Prog.MethodValue(sel)
	if fn == nil {
		return nil, unsupported("abstract method %s on %s", m.Name(), T)
	}
	return fn, nil
}

func fnKey(fn *ssa.Function) string {
	if o := fn.Origin(); o != nil {
		return o.String()
	}
	return fn.String()
}

// callValue performs a call. instr (may be nil) receives the result.
func (ex *Exec) callValue(s *State, fr *Frame, instr ssa.Value, cc *ssa.CallCommon, fnv Value, args []Value) ([]*State, error) {
	f, ok := fnv.(*FuncV)
	if !ok || f == nil {
		if ok {
			return nil, &goPanic{"call of nil function"}
		}
		return nil, &execError{fmt.Sprintf("INTERNAL call of %T", fnv)}
	}
	if f.Builtin != nil {
		r, err := ex.builtin(s, fr, f.Builtin, cc, args)
		if err != nil {
			return nil, err
		}
		if instr != nil {
			fr.Locals[instr] = r
		}
		fr.IP++
		return nil, nil
	}
	if f.Native != nil {
		ret, fork, err := f.Native(ex, s, cc, args)
		if err != nil {
			return nil, err
		}
		if fork != nil {
			return ex.applyFork(s, instr, fork), nil
		}
		if instr != nil {
			fr.Locals[instr] = ret
		}
		fr.IP++
		return nil, nil
	}
	fn := f.Fn
	name := fnKey(fn)
	var model ModelFn
	if strings.HasPrefix(fn.Name(), "verif") {
		model = ex.Models["intrinsic:"+fn.Name()]
	}
	if model == nil {
		if _, replaced := ex.ReplaceByGo[name]; !replaced { // a Go-source replacement wins over a built-in model
			model = ex.Models[name]
		}
	}
	var mret Value
	var mfork *Fork
	var merr error
	if model != nil {
		mret, mfork, merr = model(ex, s, cc, args)
		if merr == errFallThrough {
			model, merr = nil, nil
		}
	}
	if model != nil {
		ret, fork, err := mret, mfork, merr
		if err != nil {
			if _, isU := err.(*execError); isU && s.Lenient {
				ret, fork = Poison{err.Error()}, nil
			} else {
				return nil, err
			}
		}
		if fork != nil {
			return ex.applyFork(s, instr, fork), nil
		}
		if _, isPush := ret.(pushed); isPush {
			return nil, nil
		}
		if instr != nil {
			fr.Locals[instr] = ret
		}
		fr.IP++
		return nil, nil
	}
	if repl, ok := ex.ReplaceByGo[name]; ok && ex.HarnessPk != nil {
		if rf := ex.HarnessPk.Func(repl); rf != nil {
			fn = rf
		} else {
			return nil, unsupported("replacement %s for %s not found in harness package", repl, name)
		}
	}
	if s.Lenient && ex.allowInit != nil && fn.Pkg != nil && !ex.allowInit(fn.Pkg.Pkg.Path()) {
		if instr != nil {
			fr.Locals[instr] = Poison{"call into non-modelled package " + name}
		}
		fr.IP++
		return nil, nil
	}
	if len(fn.Blocks) == 0 {
		if s.Lenient {
			if instr != nil {
				fr.Locals[instr] = Poison{"external " + name}
			}
			fr.IP++
			return nil, nil
		}
		if af, aerr := ex.findAsm(fn); aerr == nil {
			ret, err := ex.runAsm(s, fn, af, args)
			if err != nil {
				return nil, err
			}
			ex.Funcs["asm:"+fn.String()] = true
			if instr != nil {
				fr.Locals[instr] = ret
			}
			fr.IP++
			return nil, nil
		}
		return nil, unsupported("call of body-less function %s (no model)", name)
	}
	if len(s.Stack) > 400 {
		return nil, &execError{"UNWIND call depth exceeded"}
	}
	nf := ex.newFrame(fn, args, f.Bind)
	nf.Call = instr
	s.Stack = append(s.Stack, nf)
	return nil, nil
}

// pushed is returned by models that pushed a frame themselves.
type pushed struct{}


func (ex *Exec) applyFork(s *State, instr ssa.Value, fork *Fork) []*State {
	var out []*State
	for i, a := range fork.Alts {
		var t *State
		if a.Cond != nil {
			if a.Cond.IsFalse() {
				continue
			}
			if !a.Cond.IsTrue() {
				if r := ex.checkSat(s, a.Cond); r == Unsat {
					continue
				}
			}
		}
		if i == len(fork.Alts)-1 {
			t = s
		} else {
			t = ex.clone(s)
		}
		if a.Cond != nil && !a.Cond.IsTrue() {
			t.PC = append(t.PC, a.Cond)
		}
		if a.Tag != "" {
			t.Choice += a.Tag
		}
		if a.Panic != "" {
			ex.doPanic(t, a.Panic)
		} else {
			tf := t.top()
			ret := a.Ret
			if le, ok := ret.(lazyEdSet); ok {
				if err := ex.store(t, le.recv.(Ptr), le.v); err != nil {
					ex.handleErr(t, err)
					out = append(out, t)
					continue
				}
				ret = TupleV{le.recv, IfaceV{}}
			}
			if lb, ok := ret.(lazyBigSet); ok {
				if err := ex.store(t, lb.recv.(Ptr), lb.v); err != nil {
					ex.handleErr(t, err)
					out = append(out, t)
					continue
				}
				ret = lb.recv
			}
			if instr != nil {
				tf.Locals[instr] = ret
			}
			tf.IP++
		}
		out = append(out, t)
	}
	if len(out) == 0 {
		s.Status = Infeasible
		return []*State{s}
	}
	// make sure s itself is accounted for if its alternative was dropped
	found := false
	for _, t := range out {
		if t == s {
			found = true
		}
	}
	if !found {
		s.Status = Infeasible
		out = append(out, s)
	}
	return out
}

func (ex *Exec) builtin(s *State, fr *Frame, b *ssa.Builtin, cc *ssa.CallCommon, args []Value) (Value, error) {
	c := ex.Ctx
	switch b.Name() {
	case "close":
		return nil, ex.chanClose(s, args[0])
	case "len":
		switch x := args[0].(type) {
		case StringV:
			return c.BV(64, uint64(len(x.B))), nil
		case SliceV:
			return c.BV(64, uint64(x.Len)), nil
		case MapV:
			if x.Obj == 0 {
				return c.BV(64, 0), nil
			}
			return c.BV(64, uint64(len(s.Heap[x.Obj].V.(*MapObj).Keys))), nil
		case Ptr:
			at := cc.Args[0].Type().Underlying().(*types.Pointer).Elem().Underlying().(*types.Array)
			return c.BV(64, uint64(at.Len())), nil
		case *ArrayV:
			return c.BV(64, uint64(len(x.E))), nil
		case lener:
			return x.LenTerm(ex)
		}
		return nil, unsupported("len of %T", args[0])
	case "cap":
		switch x := args[0].(type) {
		case SliceV:
			return c.BV(64, uint64(x.Cap)), nil
		case Ptr:
			at := cc.Args[0].Type().Underlying().(*types.Pointer).Elem().Underlying().(*types.Array)
			return c.BV(64, uint64(at.Len())), nil
		case *ArrayV:
			return c.BV(64, uint64(len(x.E))), nil
		}
		return nil, unsupported("cap of %T", args[0])
	case "append":
		sl, ok := args[0].(SliceV)
		if !ok {
			return nil, unsupported("append to %T", args[0])
		}
		var add []Value
		switch t := args[1].(type) {
		case SliceV:
			el, err := ex.sliceElems(s, t)
			if err != nil {
				return nil, err
			}
			add = el
		case StringV:
			for _, bt := range t.B {
				add = append(add, bt)
			}
		default:
			return nil, unsupported("append of %T", args[1])
		}
		return ex.appendElems(s, sl, add, cc.Args[0].Type().Underlying().(*types.Slice).Elem())
	case "copy":
		dst, ok := args[0].(SliceV)
		if !ok {
			return nil, unsupported("copy to %T", args[0])
		}
		var src []Value
		switch t := args[1].(type) {
		case SliceV:
			el, err := ex.sliceElems(s, t)
			if err != nil {
				return nil, err
			}
			src = el
		case StringV:
			for _, bt := range t.B {
				src = append(src, bt)
			}
		default:
			return nil, unsupported("copy from %T", args[1])
		}
		n := len(src)
		if dst.Len < n {
			n = dst.Len
		}
		for i := 0; i < n; i++ {
			if err := ex.store(s, Ptr{Obj: dst.Obj, Path: appendPath(dst.Path, PE{I: dst.Off + i})}, src[i]); err != nil {
				return nil, err
			}
		}
		return c.BV(64, uint64(n)), nil
	case "print", "println":
		return nil, nil
	case "min", "max":
		acc := args[0].(*Term)
		signed := isSigned(cc.Args[0].Type())
		for _, a := range args[1:] {
			t := a.(*Term)
			var lt *Term
			if signed {
				lt = c.Cmp(OSlt, t, acc)
			} else {
				lt = c.Cmp(OUlt, t, acc)
			}
			if b.Name() == "max" {
				lt = c.BNot(c.BOr(lt, c.Eq(t, acc)))
			}
			acc = c.Ite(lt, t, acc)
		}
		return acc, nil
	case "delete":
		m := args[0].(MapV)
		if m.Obj == 0 {
			return nil, nil
		}
		ks, ok := canonKey(args[1])
		if !ok {
			return nil, unsupported("delete with symbolic key")
		}
		o := ex.writable(s, m.Obj)
		mo := o.V.(*MapObj)
		if _, ok := mo.V[ks]; ok {
			delete(mo.V, ks)
			delete(mo.K, ks)
			for i, k := range mo.Keys {
				if k == ks {
					mo.Keys = append(mo.Keys[:i:i], mo.Keys[i+1:]...)
					break
				}
			}
		}
		return nil, nil
	case "ssa:wrapnilchk":
		if p, ok := args[0].(Ptr); ok && p.Obj == 0 {
			return nil, &goPanic{"value method called using nil pointer"}
		}
		return args[0], nil
	case "clear":
		switch x := args[0].(type) {
		case SliceV:
			et := cc.Args[0].Type().Underlying().(*types.Slice).Elem()
			for i := 0; i < x.Len; i++ {
				if err := ex.store(s, Ptr{Obj: x.Obj, Path: appendPath(x.Path, PE{I: x.Off + i})}, ex.zero(et)); err != nil {
					return nil, err
				}
			}
			return nil, nil
		}
	}
	return nil, unsupported("builtin %s", b.Name())
}

type lener interface {
	LenTerm(ex *Exec) (Value, error)
}

func (ex *Exec) appendElems(s *State, sl SliceV, add []Value, et types.Type) (Value, error) {
	n := sl.Len + len(add)
	if len(add) == 0 {
		return sl, nil
	}
	if sl.Obj != 0 && n <= sl.Cap {
		for i, v := range add {
			if err := ex.store(s, Ptr{Obj: sl.Obj, Path: appendPath(sl.Path, PE{I: sl.Off + sl.Len + i})}, v); err != nil {
				return nil, err
			}
		}
		return SliceV{Obj: sl.Obj, Path: sl.Path, Off: sl.Off, Len: n, Cap: sl.Cap}, nil
	}
	old, err := ex.sliceElems(s, sl)
	if err != nil {
		return nil, err
	}
	ncap := n
	if sl.Cap*2 > ncap && sl.Cap < 1024 {
		ncap = sl.Cap * 2
	}
	av := &ArrayV{E: make([]Value, ncap)}
	copy(av.E, old)
	for i, v := range add {
		av.E[sl.Len+i] = deepCopy(v)
	}
	if ncap > n {
		z := ex.zero(et)
		for i := n; i < ncap; i++ {
			av.E[i] = deepCopy(z)
		}
	}
	id := ex.newObject(s, av, types.NewArray(et, int64(ncap)))
	return SliceV{Obj: id, Len: n, Cap: ncap}, nil
}

// ---------------------------------------------------------------- package initialisation

// InitPackage runs pkg's initialiser (and, recursively, those of the packages
// it imports that are accepted by allow) in the boot state.
func (ex *Exec) InitPackage(pkg *ssa.Package, allow func(path string) bool) {
	if ex.initDone[pkg] {
		return
	}
	ex.allowInit = allow
	ex.initDone[pkg] = true
	for _, imp := range pkg.Pkg.Imports() {
		ip := ex.Prog.Package(imp)
		if ip == nil {
			continue
		}
		if allow(imp.Path()) {
			ex.InitPackage(ip, allow)
		} else if !ex.initDone[ip] {
			ex.initDone[ip] = true
			ex.suspect[ip] = "not initialised (outside the modelled set)"
		}
	}
	initFn := pkg.Func("init")
	if initFn == nil {
		return
	}
	s := ex.Boot
	s.Status = Running
	fr := ex.newFrame(initFn, nil, nil)
	s.Stack = []*Frame{fr}
	saveModels := ex.Models["intrinsic:init"]
	_ = saveModels
	for s.Status == Running {
		// calls to other packages' init functions are skipped (handled above)
		top := s.top()
		if top.Block != nil && top.IP < len(top.Block.Instrs) {
			if call, ok := top.Block.Instrs[top.IP].(*ssa.Call); ok {
				if callee := call.Call.StaticCallee(); callee != nil && callee.Name() == "init" && callee.Pkg != pkg && callee.Signature.Recv() == nil && callee.Parent() == nil {
					top.IP++
					continue
				}
			}
		}
		succ, _ := ex.step(s)
		if len(succ) > 1 {
			// a symbolic decision inside an initialiser: poison the result of the outermost call
			s = succ[0]
			s.Status = Running
			s.PC = nil
			if len(s.Stack) >= 1 {
				s.Stack = s.Stack[:1]
				top := s.Stack[0]
				if top.Block != nil && top.IP < len(top.Block.Instrs) {
					if v, ok := top.Block.Instrs[top.IP].(ssa.Value); ok {
						top.Locals[v] = Poison{"symbolic decision during package init"}
					}
					top.IP++
				}
			}
		} else if len(succ) == 1 {
			s = succ[0]
		}
	}
	if s.Status != Done {
		ex.suspect[pkg] = s.Status.String() + ": " + s.Msg
	}
	s.Status = Running
	s.Stack = nil
	s.PC = nil
	ex.Boot = s
}

func (ex *Exec) Suspects() map[string]string {
	m := map[string]string{}
	for p, w := range ex.suspect {
		m[p.Pkg.Path()] = w
	}
	return m
}
