package sym

import (
	"math/big"
	"math/rand"
)

// Concrete evaluation of terms under an assignment of the variables; used to look for
// counterexamples cheaply before a hard solver query (a hit is still replayed natively).
// Only bit-vector / Bool terms of width <= 64 without UF applications are supported.

type evalEnv struct {
	vals map[int]uint64 // var term id -> value
	memo map[int]uint64
	ok   bool
	rnd  *rand.Rand
}

func (e *evalEnv) eval(t *Term) uint64 {
	if !e.ok {
		return 0
	}
	if v, ok := e.memo[t.ID]; ok {
		return v
	}
	// iterative post-order to avoid deep recursion
	type fr struct {
		t *Term
		i int
	}
	st := []fr{{t, 0}}
	for len(st) > 0 && e.ok {
		f := &st[len(st)-1]
		if _, done := e.memo[f.t.ID]; done {
			st = st[:len(st)-1]
			continue
		}
		if f.i < len(f.t.Args) {
			a := f.t.Args[f.i]
			f.i++
			if _, done := e.memo[a.ID]; !done {
				st = append(st, fr{a, 0})
			}
			continue
		}
		e.memo[f.t.ID] = e.evalNode(f.t)
		st = st[:len(st)-1]
	}
	return e.memo[t.ID]
}

func (e *evalEnv) evalNode(t *Term) uint64 {
	if t.S.K == KInt || t.S.K == KU || (t.S.K == KBV && t.S.W > 64) {
		e.ok = false
		return 0
	}
	w := t.S.W
	arg := func(i int) uint64 { return e.memo[t.Args[i].ID] }
	sx := func(v uint64, w int) int64 {
		if w < 64 && v>>(uint(w)-1)&1 == 1 {
			return int64(v | ^mask(w))
		}
		return int64(v)
	}
	switch t.Op {
	case OConst:
		if t.Big != nil {
			e.ok = false
			return 0
		}
		return t.U
	case OVar:
		v, ok := e.vals[t.ID]
		if !ok {
			if t.S.K == KBool {
				v = uint64(e.rnd.Intn(2))
			} else {
				v = e.rnd.Uint64() & mask(w)
				switch e.rnd.Intn(6) {
				case 0:
					v = 0
				case 1:
					v = mask(w)
				case 2: // carry boundaries: low half all ones / only the high half set
					if w >= 16 {
						v = mask(w / 2)
					}
				case 3:
					if w >= 16 {
						v = mask(w) &^ mask(w/2)
					}
				}
			}
			e.vals[t.ID] = v
		}
		return v
	case OAdd:
		return (arg(0) + arg(1)) & mask(w)
	case OSub:
		return (arg(0) - arg(1)) & mask(w)
	case OMul:
		return (arg(0) * arg(1)) & mask(w)
	case OAnd:
		return arg(0) & arg(1)
	case OOr:
		return arg(0) | arg(1)
	case OXor:
		return arg(0) ^ arg(1)
	case ONot:
		return ^arg(0) & mask(w)
	case OUDiv, OURem, OSDiv, OSRem, OShl, OLShr, OAShr:
		c := NewCtx()
		r := c.foldBV(t.Op, c.BV(w, arg(0)), c.BV(w, arg(1)))
		if r == nil {
			e.ok = false
			return 0
		}
		return r.U
	case OConcat:
		var v uint64
		for i, a := range t.Args {
			v = v<<uint(a.S.W) | e.memo[t.Args[i].ID]
		}
		return v & mask(w)
	case OExtract:
		if t.Args[0].S.W > 64 {
			e.ok = false
			return 0
		}
		return (arg(0) >> uint(t.B)) & mask(w)
	case OZExt:
		return arg(0)
	case OSExt:
		return uint64(sx(arg(0), t.Args[0].S.W)) & mask(w)
	case OEq:
		if arg(0) == arg(1) {
			return 1
		}
		return 0
	case OUlt:
		if arg(0) < arg(1) {
			return 1
		}
		return 0
	case OUle:
		if arg(0) <= arg(1) {
			return 1
		}
		return 0
	case OSlt:
		if sx(arg(0), t.Args[0].S.W) < sx(arg(1), t.Args[0].S.W) {
			return 1
		}
		return 0
	case OSle:
		if sx(arg(0), t.Args[0].S.W) <= sx(arg(1), t.Args[0].S.W) {
			return 1
		}
		return 0
	case OBAnd:
		for i := range t.Args {
			if arg(i) == 0 {
				return 0
			}
		}
		return 1
	case OBOr:
		for i := range t.Args {
			if arg(i) != 0 {
				return 1
			}
		}
		return 0
	case OBNot:
		return 1 - arg(0)
	case OIte:
		if arg(0) != 0 {
			return arg(1)
		}
		return arg(2)
	}
	e.ok = false
	return 0
}

// quickCounterexample looks for an assignment satisfying every term of pc and falsifying cond.
func (ex *Exec) quickCounterexample(pc []*Term, cond *Term, tries int) map[*Term]*big.Int {
	for k := 0; k < tries; k++ {
		e := &evalEnv{vals: map[int]uint64{}, memo: map[int]uint64{}, ok: true, rnd: rand.New(rand.NewSource(int64(ex.Seed)*1000 + int64(k)))}
		good := true
		for _, p := range pc {
			if e.eval(p) == 0 || !e.ok {
				good = false
				break
			}
		}
		if !good || !e.ok {
			if !e.ok {
				return nil
			}
			continue
		}
		if e.eval(cond) == 0 && e.ok {
			m := map[*Term]*big.Int{}
			for id, v := range e.vals {
				m[ex.Ctx.byID(id)] = new(big.Int).SetUint64(v)
			}
			return m
		}
		if !e.ok {
			return nil
		}
	}
	return nil
}
