package sym

import (
	"fmt"
	"os"
	"time"
	"go/constant"
	"go/token"
	"go/types"
	"math"
	"math/big"
	"sort"
	"strings"

	"golang.org/x/tools/go/ssa"
)

type Status int

const (
	Running Status = iota
	Done
	Panicked
	Infeasible
	Failed
	Errored
)

func (s Status) String() string {
	return [...]string{"running", "done", "panicked", "infeasible", "failed", "errored"}[s]
}

type deferred struct {
	fn   Value
	args []Value
	call *ssa.CallCommon
}

type Frame struct {
	Fn          *ssa.Function
	Block, Prev *ssa.BasicBlock
	IP          int
	Locals      map[ssa.Value]Value
	Defers      []deferred
	Call        ssa.Value // instruction in the caller that receives the result
	Catch       bool      // verifPanics marker
	RunningDefs bool
	Visits      map[int]int
}

type SymRec struct {
	Name  string // replay key, e.g. "s#0"
	Kind  string // u8 u16 u32 u64 int bool bytes choice
	Terms []*Term
}

type State struct {
	ID       int
	Stack    []*Frame
	Heap     map[int]*Object
	Epoch    int
	PC       []*Term
	Status   Status
	Msg      string
	SymCount map[string]int
	Syms     []SymRec
	Steps    int
	Result   Value
	Lenient  bool // package initialisation mode
	Unchecked int // lazily added path-condition conjuncts since the last feasibility check
	Choice   string // verifChoice decisions taken; only states with equal tags merge
	Barrier  int  // no merging until Steps exceeds this (set by concretisation forks)
	Notes    []string
}

type stopPoint struct {
	depth int
	fn    *ssa.Function
	block *ssa.BasicBlock
}

type Violation struct {
	ID     string            // assertion id or "panic"
	Msg    string            // detail
	Model  map[string]string // replay key -> value (hex for bytes, decimal otherwise)
	Path   int
	Pos    string
	Result Result
}

type AssertStat struct {
	ID        string
	Checked   int // times reached
	Folded    int // decided by the term builder
	Solver    int // decided unsat by solver
	Sat       int
	Unknown   int
	MaxMs     int64
	TotalMs   int64
	LastShape string
	QuickHits int
}

type Exec struct {
	Ctx    *Ctx
	Solver *Solver
	Prog   *ssa.Program
	Sizes  types.Sizes

	globals   map[*ssa.Global]int
	initDone  map[*ssa.Package]bool
	suspect   map[*ssa.Package]string
	nextObj   int
	nextEpoch int
	nextState int
	statesAtStart int
	Boot      *State
	HarnessPk *ssa.Package

	Models map[string]ModelFn
	fninfo map[*ssa.Function]*fnInfo
	pdoms  map[*ssa.Function]map[*ssa.BasicBlock]*ssa.BasicBlock
	lazyCache map[*ssa.BasicBlock]bool
	allowInit func(string) bool
	bootMaxObj int
	asmCache   map[*ssa.Function]*asmFunc
	opaqueMemo map[string][]*Term
	RepoDir    string
	Seed       int
	quickModel map[*Term]*big.Int
	tagSeen    map[string]bool
	TagSyms    []SymRec
	sprintfCount int
	globalSet  map[int]bool

	// configuration
	MaxSteps    int
	Deadline    time.Time // run-wide limit: paths still running then end as inconclusive
	MaxVisits   int
	MaxPaths    int
	AllowPanic  bool
	NoMerge     bool
	NoLazy      bool
	NoEdwards   bool // execute filippo.io/edwards25519 from source instead of the algebraic model
	BigMode     string // "bv" (default) or "int"
	BigWidth    int
	invCount    int
	IntConversions int
	TotalSteps  int
	LazyAll     bool
	LazyForks   int
	Trace       bool
	ReplaceByGo map[string]string // callee full name -> harness-package function

	// results of the current harness run
	Finished    []*State
	Violations  []Violation
	Asserts     map[string]*AssertStat
	Reached     map[string]int
	Errors      []string
	UnknownBr   int
	Merges      int
	MergeFails  int
	Forks       int
	PathsDone   int
	Infeasibles int
	Funcs       map[string]bool
	axiomsAdded map[string]bool
	opaqueInst  []opaqueInst    // applications of memoised opaque functions (curlTrits)
	opaquePairs map[string]bool // instance pairs whose congruence axiom has been added
	opaqueAx    []*Term         // congruence axioms found so far (valid globally)
}

type ModelFn func(ex *Exec, s *State, call *ssa.CallCommon, args []Value) (Value, *Fork, error)

// Fork describes alternative continuations produced by a call.
type Fork struct {
	Alts []Alt
}
type Alt struct {
	Cond *Term
	Ret  Value
	// Panic, if non-empty, makes this alternative a Go panic with that message.
	Panic string
	Tag   string // appended to the state's choice tag (prevents re-merging of deliberate splits)
}

func NewExec(prog *ssa.Program, ctx *Ctx, solver *Solver) *Exec {
	ex := &Exec{Ctx: ctx, Solver: solver, Prog: prog, Sizes: types.SizesFor("gc", "amd64"),
		globals: map[*ssa.Global]int{}, initDone: map[*ssa.Package]bool{}, suspect: map[*ssa.Package]string{},
		Models: map[string]ModelFn{}, fninfo: map[*ssa.Function]*fnInfo{}, pdoms: map[*ssa.Function]map[*ssa.BasicBlock]*ssa.BasicBlock{}, lazyCache: map[*ssa.BasicBlock]bool{},
		MaxSteps: 50_000_000, MaxVisits: 200_000, MaxPaths: 200_000,
		ReplaceByGo: map[string]string{}, axiomsAdded: map[string]bool{}, globalSet: map[int]bool{}, asmCache: map[*ssa.Function]*asmFunc{}, tagSeen: map[string]bool{}, opaqueMemo: map[string][]*Term{}, opaquePairs: map[string]bool{},
	}
	ex.nextObj = 1
	ex.Boot = &State{Heap: map[int]*Object{}, SymCount: map[string]int{}, Lenient: true}
	ex.Boot.Epoch = ex.newEpoch()
	registerModels(ex)
	ex.resetRun()
	return ex
}

func (ex *Exec) resetRun() {
	ex.Finished = nil
	ex.Violations = nil
	ex.Asserts = map[string]*AssertStat{}
	ex.Reached = map[string]int{}
	ex.Errors = nil
	ex.UnknownBr, ex.Merges, ex.MergeFails, ex.Forks, ex.PathsDone, ex.Infeasibles = 0, 0, 0, 0, 0, 0
	ex.Funcs = map[string]bool{}
	ex.TotalSteps = 0
	ex.statesAtStart = ex.nextState
}

func (ex *Exec) StatesCreated() int { return ex.nextState - ex.statesAtStart }

func (ex *Exec) newEpoch() int { ex.nextEpoch++; return ex.nextEpoch }

type execError struct{ msg string }

func (e *execError) Error() string { return e.msg }

func unsupported(format string, a ...interface{}) error {
	return &execError{"UNSUPPORTED " + fmt.Sprintf(format, a...)}
}

// ---------------------------------------------------------------- state

func (s *State) top() *Frame { return s.Stack[len(s.Stack)-1] }

func (ex *Exec) clone(s *State) *State {
	n := &State{Heap: make(map[int]*Object, len(s.Heap)), PC: append([]*Term{}, s.PC...), Status: s.Status,
		Msg: s.Msg, SymCount: map[string]int{}, Syms: append([]SymRec{}, s.Syms...), Steps: s.Steps, Lenient: s.Lenient, Barrier: s.Barrier, Unchecked: s.Unchecked, Choice: s.Choice}
	ex.nextState++
	n.ID = ex.nextState
	for k, v := range s.Heap {
		n.Heap[k] = v
	}
	for k, v := range s.SymCount {
		n.SymCount[k] = v
	}
	n.Stack = make([]*Frame, len(s.Stack))
	for i, f := range s.Stack {
		nf := *f
		nf.Locals = make(map[ssa.Value]Value, len(f.Locals))
		for k, v := range f.Locals {
			nf.Locals[k] = v
		}
		nf.Defers = append([]deferred{}, f.Defers...)
		nf.Visits = make(map[int]int, len(f.Visits))
		for k, v := range f.Visits {
			nf.Visits[k] = v
		}
		n.Stack[i] = &nf
	}
	n.Epoch = ex.newEpoch()
	s.Epoch = ex.newEpoch()
	return n
}

func (ex *Exec) newObject(s *State, v Value, t types.Type) int {
	id := ex.nextObj
	ex.nextObj++
	s.Heap[id] = &Object{V: v, Owner: s.Epoch, Type: t}
	return id
}

func (ex *Exec) writable(s *State, id int) *Object {
	o := s.Heap[id]
	if o == nil {
		return nil
	}
	if o.Owner != s.Epoch {
		o = &Object{V: deepCopy(o.V), Owner: s.Epoch, Type: o.Type}
		s.Heap[id] = o
	}
	return o
}

// ---------------------------------------------------------------- types

func (ex *Exec) scalarSort(t types.Type) (Sort, bool) {
	switch u := t.Underlying().(type) {
	case *types.Basic:
		switch u.Kind() {
		case types.Bool, types.UntypedBool:
			return SBool, true
		case types.Int8, types.Uint8:
			return SBV(8), true
		case types.Int16, types.Uint16:
			return SBV(16), true
		case types.Int32, types.Uint32, types.UntypedRune, types.Float32:
			return SBV(32), true
		case types.Int64, types.Uint64, types.Int, types.Uint, types.Uintptr, types.UntypedInt, types.Float64, types.UntypedFloat:
			return SBV(64), true
		}
	}
	return Sort{}, false
}

func isSigned(t types.Type) bool {
	if b, ok := t.Underlying().(*types.Basic); ok {
		return b.Info()&types.IsUnsigned == 0 && b.Info()&types.IsInteger != 0
	}
	return false
}

func isFloat(t types.Type) bool {
	if b, ok := t.Underlying().(*types.Basic); ok {
		return b.Info()&types.IsFloat != 0
	}
	return false
}

func isString(t types.Type) bool {
	if b, ok := t.Underlying().(*types.Basic); ok {
		return b.Info()&types.IsString != 0
	}
	return false
}

func namedPath(t types.Type) string {
	if n, ok := t.(*types.Named); ok && n.Obj().Pkg() != nil {
		return n.Obj().Pkg().Path() + "." + n.Obj().Name()
	}
	return ""
}

func (ex *Exec) zero(t types.Type) Value {
	if mz, ok := modelZero(ex, t); ok {
		return mz
	}
	switch u := t.Underlying().(type) {
	case *types.Basic:
		if u.Info()&types.IsString != 0 {
			return StringV{}
		}
		if u.Kind() == types.UnsafePointer {
			return Ptr{}
		}
		if so, ok := ex.scalarSort(t); ok {
			if so.K == KBool {
				return ex.Ctx.False()
			}
			return ex.Ctx.BV(so.W, 0)
		}
		if u.Kind() == types.UntypedNil {
			return nil
		}
		if u.Kind() == types.Complex128 || u.Kind() == types.Complex64 {
			return Poison{"complex"}
		}
	case *types.Pointer:
		return Ptr{}
	case *types.Slice:
		return SliceV{}
	case *types.Struct:
		sv := &StructV{F: make([]Value, u.NumFields())}
		for i := 0; i < u.NumFields(); i++ {
			sv.F[i] = ex.zero(u.Field(i).Type())
		}
		return sv
	case *types.Array:
		n := int(u.Len())
		av := &ArrayV{E: make([]Value, n)}
		if n > 0 {
			z := ex.zero(u.Elem())
			switch z.(type) {
			case *StructV, *ArrayV:
				for i := range av.E {
					av.E[i] = ex.zero(u.Elem())
				}
			default:
				for i := range av.E {
					av.E[i] = z
				}
			}
		}
		return av
	case *types.Interface:
		return IfaceV{}
	case *types.Signature:
		return (*FuncV)(nil)
	case *types.Map:
		return MapV{}
	case *types.Chan:
		return Poison{"chan"}
	case *types.Tuple:
		tv := make(TupleV, u.Len())
		for i := range tv {
			tv[i] = ex.zero(u.At(i).Type())
		}
		return tv
	}
	return Poison{"zero of " + t.String()}
}

// ---------------------------------------------------------------- memory

func (ex *Exec) navigate(v Value, pe PE) (Value, error) {
	switch x := v.(type) {
	case *StructV:
		if pe.I < 0 || pe.I >= len(x.F) {
			return nil, unsupported("struct path out of range")
		}
		return x.F[pe.I], nil
	case *ArrayV:
		if pe.I < 0 || pe.I >= len(x.E) {
			return nil, &execError{"INTERNAL array path out of range"}
		}
		return x.E[pe.I], nil
	}
	return nil, unsupported("navigate into %T", v)
}

func (ex *Exec) loadPath(v Value, path []PE) (Value, error) {
	return ex.loadPathIn(nil, v, path)
}

// loadPathIn: st (may be nil) is used to prune infeasible indices when the elements
// selected by a symbolic index cannot be merged into one value.
func (ex *Exec) loadPathIn(st *State, v Value, path []PE) (Value, error) {
	for k, pe := range path {
		if pe.Sym != nil {
			try := func(only map[int]bool) (Value, error) {
				var acc Value
				for i := pe.N - 1; i >= 0; i-- {
					if only != nil && !only[i] {
						continue
					}
					sub, err := ex.navigate(v, PE{I: pe.I + i})
					if err != nil {
						return nil, err
					}
					r, err := ex.loadPathIn(st, sub, path[k+1:])
					if err != nil {
						return nil, err
					}
					if acc == nil {
						acc = r
						continue
					}
					g := ex.Ctx.Eq(pe.Sym, ex.Ctx.BV(pe.Sym.S.W, uint64(i)))
					m, ok := ex.Ctx.mergeVal(g, r, acc)
					if !ok {
						return nil, errNonMergeable
					}
					acc = m
				}
				if acc == nil {
					return nil, unsupported("symbolic index into empty range")
				}
				return acc, nil
			}
			r, err := try(nil)
			if err == errNonMergeable && st != nil && pe.N <= 64 {
				feas := map[int]bool{}
				for i := 0; i < pe.N; i++ {
					if ex.checkSat(st, ex.Ctx.Eq(pe.Sym, ex.Ctx.BV(pe.Sym.S.W, uint64(i)))) != Unsat {
						feas[i] = true
					}
				}
				r, err = try(feas)
			}
			if err == errNonMergeable {
				return nil, unsupported("symbolic-index load of non-mergeable values")
			}
			return r, err
		}
		var err error
		v, err = ex.navigate(v, pe)
		if err != nil {
			return nil, err
		}
	}
	return v, nil
}

var errNonMergeable = &execError{"non-mergeable"}

func (ex *Exec) load(s *State, p Ptr) (Value, error) {
	if p.Obj == 0 {
		return nil, &goPanic{"nil pointer dereference"}
	}
	o := s.Heap[p.Obj]
	if o == nil {
		return nil, &execError{fmt.Sprintf("INTERNAL dangling object %d", p.Obj)}
	}
	v, err := ex.loadPathIn(s, o.V, p.Path)
	if err != nil {
		return nil, err
	}
	return deepCopy(v), nil
}

// storePath returns the updated container value (in place where possible).
func (ex *Exec) storePath(container Value, path []PE, val Value, guard *Term) (Value, error) {
	if len(path) == 0 {
		if guard == nil {
			return deepCopy(val), nil
		}
		m, ok := ex.Ctx.mergeVal(guard, val, container)
		if !ok {
			return nil, unsupported("guarded store of non-mergeable value %T", val)
		}
		return m, nil
	}
	pe := path[0]
	lo, hi := pe.I, pe.I
	if pe.Sym != nil {
		hi = pe.I + pe.N - 1
	}
	for i := lo; i <= hi; i++ {
		g := guard
		if pe.Sym != nil {
			eq := ex.Ctx.Eq(pe.Sym, ex.Ctx.BV(pe.Sym.S.W, uint64(i-pe.I)))
			if g == nil {
				g = eq
			} else {
				g = ex.Ctx.BAnd(g, eq)
			}
		}
		switch x := container.(type) {
		case *StructV:
			if i >= len(x.F) {
				return nil, &execError{"INTERNAL struct store out of range"}
			}
			nv, err := ex.storePath(x.F[i], path[1:], val, g)
			if err != nil {
				return nil, err
			}
			x.F[i] = nv
		case *ArrayV:
			if i < 0 || i >= len(x.E) {
				return nil, &execError{"INTERNAL array store out of range"}
			}
			nv, err := ex.storePath(x.E[i], path[1:], val, g)
			if err != nil {
				return nil, err
			}
			x.E[i] = nv
		default:
			return nil, unsupported("store into %T", container)
		}
	}
	return container, nil
}

func (ex *Exec) store(s *State, p Ptr, v Value) error {
	if p.Obj == 0 {
		return &goPanic{"nil pointer dereference"}
	}
	o := ex.writable(s, p.Obj)
	if o == nil {
		return &execError{"INTERNAL dangling object on store"}
	}
	nv, err := ex.storePath(o.V, p.Path, v, nil)
	if err != nil {
		return err
	}
	o.V = nv
	return nil
}

type goPanic struct{ msg string }

func (g *goPanic) Error() string { return "panic: " + g.msg }

// ---------------------------------------------------------------- constants

func (ex *Exec) constValue(c *ssa.Const) Value {
	t := c.Type()
	if c.Value == nil {
		return ex.zero(t)
	}
	switch u := t.Underlying().(type) {
	case *types.Basic:
		switch {
		case u.Info()&types.IsBoolean != 0:
			return ex.Ctx.Bool(constant.BoolVal(c.Value))
		case u.Info()&types.IsString != 0:
			return ex.strConst(constant.StringVal(c.Value))
		case u.Info()&types.IsInteger != 0:
			so, _ := ex.scalarSort(t)
			v, _ := new(big.Int).SetString(constant.ToInt(c.Value).ExactString(), 10)
			return ex.Ctx.BVBig(so.W, v)
		case u.Info()&types.IsFloat != 0:
			f, _ := constant.Float64Val(constant.ToFloat(c.Value))
			if u.Kind() == types.Float32 {
				return ex.Ctx.BV(32, uint64(math.Float32bits(float32(f))))
			}
			return ex.Ctx.BV(64, math.Float64bits(f))
		}
	}
	return Poison{"const " + c.String()}
}

func (ex *Exec) strConst(s string) StringV {
	b := make([]*Term, len(s))
	for i := 0; i < len(s); i++ {
		b[i] = ex.Ctx.BV(8, uint64(s[i]))
	}
	return StringV{B: b}
}

func (sv StringV) Concrete() (string, bool) {
	bs := make([]byte, len(sv.B))
	for i, b := range sv.B {
		if !b.IsConst() {
			return "", false
		}
		bs[i] = byte(b.U)
	}
	return string(bs), true
}

// ---------------------------------------------------------------- operands

func (ex *Exec) get(s *State, fr *Frame, v ssa.Value) (Value, error) {
	switch x := v.(type) {
	case *ssa.Const:
		return ex.constValue(x), nil
	case *ssa.Global:
		return Ptr{Obj: ex.globalObj(s, x)}, nil
	case *ssa.Function:
		return &FuncV{Fn: x}, nil
	case *ssa.Builtin:
		return &FuncV{Builtin: x}, nil
	}
	r, ok := fr.Locals[v]
	if !ok {
		return nil, &execError{fmt.Sprintf("INTERNAL no value for %s (%T) in %s", v.Name(), v, fr.Fn)}
	}
	if p, isP := r.(Poison); isP {
		return nil, unsupported("use of poisoned value (%s) in %s", p.Why, fr.Fn)
	}
	return r, nil
}

func (ex *Exec) globalObj(s *State, g *ssa.Global) int {
	if id, ok := ex.globals[g]; ok {
		if _, ok := s.Heap[id]; ok {
			return id
		}
	}
	// globals are created in the boot state lazily; all states derived later
	// share the id. A state that misses it gets a fresh zero object.
	id, ok := ex.globals[g]
	if !ok {
		id = ex.nextObj
		ex.nextObj++
		ex.globals[g] = id
		ex.globalSet[id] = true
	}
	et := g.Type().(*types.Pointer).Elem()
	s.Heap[id] = &Object{V: ex.zero(et), Owner: s.Epoch, Type: et}
	return id
}

// ---------------------------------------------------------------- exploration

// RunHarness symbolically executes fn with the given arguments from a clone
// of the boot state and explores all paths.
func (ex *Exec) RunHarness(fn *ssa.Function, args []Value) {
	ex.resetRun()
	ex.bootMaxObj = ex.nextObj - 1
	s := ex.clone(ex.Boot)
	s.Lenient = false
	fr := ex.newFrame(fn, args, nil)
	s.Stack = []*Frame{fr}
	ex.exploreAll(s)
}

func (ex *Exec) newFrame(fn *ssa.Function, args []Value, bind []Value) *Frame {
	fr := &Frame{Fn: fn, Locals: make(map[ssa.Value]Value, 32), Visits: map[int]int{}}
	for i, p := range fn.Params {
		if i < len(args) {
			fr.Locals[p] = args[i]
		}
	}
	for i, fv := range fn.FreeVars {
		if i < len(bind) {
			fr.Locals[fv] = bind[i]
		}
	}
	if len(fn.Blocks) > 0 {
		fr.Block = fn.Blocks[0]
	}
	ex.Funcs[fn.String()] = true
	return fr
}

func (ex *Exec) finish(s *State) {
	if (s.Status == Panicked || s.Status == Errored) && !s.Lenient {
		// lazily explored arms may be infeasible
		if ex.checkSat(s) == Unsat {
			s.Status = Infeasible
		}
	}
	switch s.Status {
	case Done:
		ex.PathsDone++
	case Infeasible:
		ex.Infeasibles++
		return
	case Errored:
		ex.Errors = append(ex.Errors, s.Msg)
	case Panicked:
		if s.Lenient {
			ex.Errors = append(ex.Errors, "panic during init: "+s.Msg)
		} else if !ex.AllowPanic {
			ex.recordViolation(s, "panic", s.Msg)
		}
		ex.PathsDone++
	case Failed:
		ex.PathsDone++
	}
	// keep only light-weight info
	s.Heap = nil
	s.Stack = nil
	ex.Finished = append(ex.Finished, s)
}

// ---------------------------------------------------------------- feasibility

var debugQueries = os.Getenv("SYMGO_DEBUG") == "4"

func (ex *Exec) checkSat(s *State, extra ...*Term) Result {
	as := make([]*Term, 0, len(s.PC)+len(extra))
	as = append(as, s.PC...)
	as = append(as, extra...)
	for _, a := range as {
		if a.IsFalse() {
			return Unsat
		}
	}
	t0 := time.Now()
	r, _ := ex.Solver.Check(as, nil)
	if debugQueries {
		what := ""
		if len(extra) > 0 {
			what = extra[0].String()
			if len(what) > 160 {
				what = what[:160]
			}
		}
		fn := ""
		if len(s.Stack) == 0 {
		} else if fr := s.top(); fr != nil && fr.Fn != nil {
			fn = fr.Fn.String()
		}
		fmt.Fprintf(os.Stderr, "query %s in %s at %s pc=%d: %s\n", r, fn, ex.posOf(s), len(s.PC), what)
	}
	if d := time.Since(t0); d > 300*time.Millisecond && os.Getenv("SYMGO_DEBUG") != "" {
		fmt.Fprintf(os.Stderr, "slow query %v (%s) at %s pc=%d\n", d, r, ex.posOf(s), len(s.PC))
	}
	return r
}

// branch splits s on cond. Returns states for the true side and the false side (nil if infeasible).
func (ex *Exec) branch(s *State, cond *Term) (t, f *State) {
	if cond.IsTrue() {
		return s, nil
	}
	if cond.IsFalse() {
		return nil, s
	}
	rt := ex.checkSat(s, cond)
	if rt == Unsat {
		return nil, s
	}
	rf := ex.checkSat(s, ex.Ctx.BNot(cond))
	if rf == Unsat {
		return s, nil
	}
	if rt == Unknown || rf == Unknown {
		ex.UnknownBr++
	}
	f = ex.clone(s)
	s.PC = append(s.PC, cond)
	f.PC = append(f.PC, ex.Ctx.BNot(cond))
	return s, f
}

func (ex *Exec) recordViolation(s *State, id, msg string) {
	v := Violation{ID: id, Msg: msg, Path: s.ID}
	if len(s.Stack) > 0 {
		v.Pos = ex.posOf(s)
	}
	// model
	var want []*Term
	syms := append(append([]SymRec{}, s.Syms...), ex.TagSyms...)
	for _, r := range syms {
		want = append(want, r.Terms...)
	}
	var res Result
	var model map[*Term]*big.Int
	if ex.quickModel != nil {
		res, model = Sat, ex.quickModel
		ex.quickModel = nil
	} else {
		res, model = ex.Solver.Check(s.PC, want)
	}
	v.Result = res
	if res == Sat {
		v.Model = map[string]string{}
		for _, r := range syms {
			switch r.Kind {
			case "bytes":
				bs := make([]byte, len(r.Terms))
				for i, t := range r.Terms {
					if t.IsConst() {
						bs[i] = byte(t.U)
					} else if mv, ok := model[t]; ok {
						bs[i] = byte(mv.Uint64())
					}
				}
				v.Model[r.Name] = fmt.Sprintf("%x", bs)
			default:
				t := r.Terms[0]
				if mv, ok := model[t]; ok {
					if r.Kind == "int" || r.Kind == "i64" {
						x := new(big.Int).Set(mv)
						if x.Bit(63) == 1 {
							x.Sub(x, new(big.Int).Lsh(big.NewInt(1), 64))
						}
						v.Model[r.Name] = x.String()
					} else {
						v.Model[r.Name] = mv.String()
					}
				} else {
					v.Model[r.Name] = "0"
				}
			}
		}
	}
	ex.Violations = append(ex.Violations, v)
}

func (ex *Exec) posOf(s *State) string {
	for i := len(s.Stack) - 1; i >= 0; i-- {
		fr := s.Stack[i]
		if fr.Block == nil || fr.IP >= len(fr.Block.Instrs) {
			continue
		}
		p := fr.Block.Instrs[fr.IP].Pos()
		if p != token.NoPos {
			return ex.Prog.Fset.Position(p).String()
		}
	}
	return ""
}

// ---------------------------------------------------------------- stepping

// step executes one instruction of s. It returns nil if s simply continues,
// otherwise the successor states (and the join point if merging applies).
func (ex *Exec) step(s *State) ([]*State, *stopPoint) {
	s.Steps++
	ex.TotalSteps++
	if s.Steps > ex.MaxSteps {
		s.Status, s.Msg = Errored, "UNWIND step limit exceeded"
		return nil, nil
	}
	fr := s.top()
	if fr.Block == nil {
		s.Status, s.Msg = Errored, "UNSUPPORTED call of body-less function "+fr.Fn.String()
		return nil, nil
	}
	in := fr.Block.Instrs[fr.IP]
	if ex.Trace {
		fmt.Printf("[%d] %s: %s\n", s.ID, fr.Fn.Name(), in)
	}
	succ, join, err := ex.execGuarded(s, fr, in)
	if err != nil && s.Lenient && len(s.Stack) > 1 {
		// package initialisers: a failure inside a callee poisons the result of the outermost call
		s.Stack = s.Stack[:1]
		top := s.Stack[0]
		if top.Block != nil && top.IP < len(top.Block.Instrs) {
			if v, ok := top.Block.Instrs[top.IP].(ssa.Value); ok {
				top.Locals[v] = Poison{err.Error()}
			}
			top.IP++
			return nil, nil
		}
	}
	if err != nil {
		if _, isU := err.(*execError); isU && s.Lenient && s.top() == fr {
			// package initialisers: an instruction we cannot execute yields a poisoned value
			if v, ok := in.(ssa.Value); ok {
				fr.Locals[v] = Poison{err.Error()}
				fr.IP++
				return nil, nil
			}
			if _, ok := in.(*ssa.Store); ok {
				fr.IP++
				return nil, nil
			}
		}
		ex.handleErr(s, err)
		return nil, nil
	}
	return succ, join
}

func (ex *Exec) execGuarded(s *State, fr *Frame, in ssa.Instruction) (succ []*State, join *stopPoint, err error) {
	if s.Lenient {
		defer func() {
			if r := recover(); r != nil {
				err = unsupported("engine fault during init: %v", r)
			}
		}()
	}
	return ex.exec(s, fr, in)
}

func (ex *Exec) handleErr(s *State, err error) {
	if gp, ok := err.(*goPanic); ok {
		ex.doPanic(s, gp.msg)
		return
	}
	pos := ex.posOf(s)
	if s.Lenient {
		s.Status, s.Msg = Errored, err.Error()+" at "+pos
		return
	}
	s.Status, s.Msg = Errored, err.Error()+" at "+pos
}

// doPanic unwinds to the nearest catching frame (verifPanics) or terminates the path.
func (ex *Exec) doPanic(s *State, msg string) {
	for i := len(s.Stack) - 1; i >= 0; i-- {
		if s.Stack[i].Catch {
			callee := s.Stack[i]
			s.Stack = s.Stack[:i]
			caller := s.top()
			if callee.Call != nil {
				caller.Locals[callee.Call] = ex.Ctx.True()
			}
			caller.IP++
			return
		}
	}
	s.Status, s.Msg = Panicked, msg+" at "+ex.posOf(s)
}

func (ex *Exec) jump(s *State, fr *Frame, to *ssa.BasicBlock) error {
	fr.Visits[to.Index]++
	if ex.LazyAll && s.Unchecked > 0 && fr.Visits[to.Index]%128 == 0 {
		// a lazily explored path that keeps looping: make sure it is feasible
		if ex.checkSat(s) == Unsat {
			s.Status = Infeasible
			return nil
		}
		s.Unchecked = 0
	}
	if fr.Visits[to.Index] > ex.MaxVisits {
		return &execError{"UNWIND loop bound exceeded in " + fr.Fn.String()}
	}
	from := fr.Block
	// evaluate phis simultaneously
	var idx = -1
	for i, p := range to.Preds {
		if p == from {
			idx = i
			break
		}
	}
	var vals []Value
	var phis []*ssa.Phi
	for _, in := range to.Instrs {
		phi, ok := in.(*ssa.Phi)
		if !ok {
			break
		}
		v, err := ex.get(s, fr, phi.Edges[idx])
		if err != nil {
			// a poisoned edge value is fine if never used
			if s.Lenient {
				v = Poison{"phi edge"}
			} else {
				return err
			}
		}
		vals = append(vals, v)
		phis = append(phis, phi)
	}
	for i, phi := range phis {
		fr.Locals[phi] = vals[i]
	}
	fr.Prev = from
	fr.Block = to
	fr.IP = len(phis)
	return nil
}

func (ex *Exec) exec(s *State, fr *Frame, in ssa.Instruction) ([]*State, *stopPoint, error) {
	c := ex.Ctx
	switch x := in.(type) {
	case *ssa.DebugRef:
		fr.IP++
		return nil, nil, nil

	case *ssa.Alloc:
		et := x.Type().(*types.Pointer).Elem()
		id := ex.newObject(s, ex.zero(et), et)
		fr.Locals[x] = Ptr{Obj: id}

	case *ssa.UnOp:
		v, err := ex.get(s, fr, x.X)
		if err != nil {
			return nil, nil, err
		}
		r, err := ex.unop(s, x, v)
		if err != nil {
			return nil, nil, err
		}
		fr.Locals[x] = r

	case *ssa.BinOp:
		a, err := ex.get(s, fr, x.X)
		if err != nil {
			return nil, nil, err
		}
		b, err := ex.get(s, fr, x.Y)
		if err != nil {
			return nil, nil, err
		}
		// division by zero check
		if (x.Op == token.QUO || x.Op == token.REM) && !isFloat(x.X.Type()) {
			if bt, ok := b.(*Term); ok {
				z := c.Eq(bt, c.BV(bt.S.W, 0))
				if !z.IsFalse() {
					tz, fz := ex.branch(s, z)
					if tz != nil && fz != nil {
						ex.doPanic(tz, "integer divide by zero")
						return []*State{tz, fz}, nil, nil
					}
					if tz != nil {
						return nil, nil, &goPanic{"integer divide by zero"}
					}
				}
			}
		}
		r, err := ex.binop(x.Op, x.X.Type(), x.Y.Type(), a, b)
		if err != nil {
			return nil, nil, err
		}
		fr.Locals[x] = r

	case *ssa.Phi:
		return nil, nil, &execError{"INTERNAL phi reached"}

	case *ssa.Jump:
		return nil, nil, ex.jump(s, fr, fr.Block.Succs[0])

	case *ssa.If:
		cv, err := ex.get(s, fr, x.Cond)
		if err != nil {
			return nil, nil, err
		}
		cond := cv.(*Term)
		blk := fr.Block
		var ts, fs *State
		if !cond.IsConst() && !ex.NoLazy && !s.Lenient && (ex.LazyAll || ex.lazyDiamond(blk)) {
			ex.LazyForks++
			fs = ex.clone(s)
			ts = s
			ts.PC = append(ts.PC, cond)
			fs.PC = append(fs.PC, ex.Ctx.BNot(cond))
			ts.Unchecked++
			fs.Unchecked++
		} else {
			ts, fs = ex.branch(s, cond)
		}
		var out []*State
		if ts != nil {
			if err := ex.jump(ts, ts.top(), blk.Succs[0]); err != nil {
				ex.handleErr(ts, err)
			}
			out = append(out, ts)
		}
		if fs != nil {
			if err := ex.jump(fs, fs.top(), blk.Succs[1]); err != nil {
				ex.handleErr(fs, err)
			}
			out = append(out, fs)
		}
		if len(out) == 2 {
			return out, nil, nil
		}
		if len(out) == 1 && out[0] != s {
			return out, nil, nil
		}
		return nil, nil, nil

	case *ssa.Return:
		var res Value
		switch len(x.Results) {
		case 0:
		case 1:
			v, err := ex.get(s, fr, x.Results[0])
			if err != nil {
				return nil, nil, err
			}
			res = v
		default:
			tv := make(TupleV, len(x.Results))
			for i, r := range x.Results {
				v, err := ex.get(s, fr, r)
				if err != nil {
					return nil, nil, err
				}
				tv[i] = v
			}
			res = tv
		}
		ex.doReturn(s, res)
		return nil, nil, nil

	case *ssa.RunDefers:
		if n := len(fr.Defers); n > 0 {
			d := fr.Defers[n-1]
			fr.Defers = fr.Defers[:n-1]
			// call it; when it returns we re-execute RunDefers
			fr.IP-- // compensate: callFunction's return does IP++
			succ, err := ex.callValue(s, fr, nil, d.call, d.fn, d.args)
			if err != nil {
				return nil, nil, err
			}
			if succ != nil {
				return succ, nil, nil
			}
			// handled natively (no frame pushed): IP was advanced by callValue
			return nil, nil, nil
		}

	case *ssa.Defer:
		fnv, args, err := ex.prepareCall(s, fr, &x.Call)
		if err != nil {
			return nil, nil, err
		}
		fr.Defers = append(fr.Defers, deferred{fn: fnv, args: args, call: &x.Call})

	case *ssa.Panic:
		v, _ := ex.get(s, fr, x.X)
		msg := "explicit panic"
		if iv, ok := v.(IfaceV); ok {
			if sv, ok := iv.V.(StringV); ok {
				if str, ok := sv.Concrete(); ok {
					msg = "explicit panic: " + str
				}
			} else if iv.T != nil {
				msg = "explicit panic of type " + iv.T.String()
			}
		}
		return nil, nil, &goPanic{msg}

	case *ssa.Go:
		// sequential schedule (models_seq.go): run the goroutine to completion here, except one that
		// waits in a select (never scheduled before the spawner returns)
		fnv, args, err := ex.prepareCall(s, fr, &x.Call)
		if err != nil {
			return nil, nil, err
		}
		if f, ok := fnv.(*FuncV); ok && f.Fn != nil && hasSelect(f.Fn) {
			ex.Funcs["go:not scheduled (waits in select) "+f.Fn.String()] = true
			break
		}
		ex.Funcs["go:run to completion at the go statement"] = true
		succ, err := ex.callValue(s, fr, nil, &x.Call, fnv, args)
		if err != nil {
			return nil, nil, err
		}
		return succ, nil, nil
	case *ssa.Select:
		return nil, nil, unsupported("select")
	case *ssa.Send:
		ch, err := ex.get(s, fr, x.Chan)
		if err != nil {
			return nil, nil, err
		}
		v, err := ex.get(s, fr, x.X)
		if err != nil {
			return nil, nil, err
		}
		if err := ex.chanSend(s, ch, v); err != nil {
			return nil, nil, err
		}
	case *ssa.MakeChan:
		v, err := ex.makeChan(s, fr, x)
		if err != nil {
			fr.Locals[x] = Poison{"chan: " + err.Error()}
		} else {
			fr.Locals[x] = v
		}

	case *ssa.Call:
		fnv, args, err := ex.prepareCall(s, fr, &x.Call)
		if err != nil {
			return nil, nil, err
		}
		succ, err := ex.callValue(s, fr, x, &x.Call, fnv, args)
		if err != nil {
			return nil, nil, err
		}
		return succ, nil, nil

	case *ssa.ChangeInterface:
		v, err := ex.get(s, fr, x.X)
		if err != nil {
			return nil, nil, err
		}
		fr.Locals[x] = v

	case *ssa.ChangeType:
		v, err := ex.get(s, fr, x.X)
		if err != nil {
			return nil, nil, err
		}
		fr.Locals[x] = v

	case *ssa.Convert:
		v, err := ex.get(s, fr, x.X)
		if err != nil {
			return nil, nil, err
		}
		r, err := ex.convert(s, x.X.Type(), x.Type(), v)
		if err != nil {
			return nil, nil, err
		}
		fr.Locals[x] = r

	case *ssa.MultiConvert:
		v, err := ex.get(s, fr, x.X)
		if err != nil {
			return nil, nil, err
		}
		r, err := ex.convert(s, x.X.Type(), x.Type(), v)
		if err != nil {
			return nil, nil, err
		}
		fr.Locals[x] = r

	case *ssa.Extract:
		v, err := ex.get(s, fr, x.Tuple)
		if err != nil {
			return nil, nil, err
		}
		tv, ok := v.(TupleV)
		if !ok {
			return nil, nil, &execError{fmt.Sprintf("INTERNAL extract from %T", v)}
		}
		fr.Locals[x] = tv[x.Index]

	case *ssa.Field:
		v, err := ex.get(s, fr, x.X)
		if err != nil {
			return nil, nil, err
		}
		sv, ok := v.(*StructV)
		if !ok {
			return nil, nil, unsupported("field of %T", v)
		}
		fr.Locals[x] = deepCopy(sv.F[x.Field])

	case *ssa.FieldAddr:
		v, err := ex.get(s, fr, x.X)
		if err != nil {
			return nil, nil, err
		}
		p := v.(Ptr)
		if p.Obj == 0 {
			return nil, nil, &goPanic{"nil pointer dereference (field address)"}
		}
		fr.Locals[x] = Ptr{Obj: p.Obj, Path: appendPath(p.Path, PE{I: x.Field})}

	case *ssa.Index:
		v, err := ex.get(s, fr, x.X)
		if err != nil {
			return nil, nil, err
		}
		iv, err := ex.get(s, fr, x.Index)
		if err != nil {
			return nil, nil, err
		}
		return ex.indexValue(s, fr, x, v, iv.(*Term), isSigned(x.Index.Type()))

	case *ssa.IndexAddr:
		v, err := ex.get(s, fr, x.X)
		if err != nil {
			return nil, nil, err
		}
		iv, err := ex.get(s, fr, x.Index)
		if err != nil {
			return nil, nil, err
		}
		return ex.indexAddr(s, fr, x, v, iv.(*Term))

	case *ssa.Lookup:
		v, err := ex.get(s, fr, x.X)
		if err != nil {
			return nil, nil, err
		}
		kv, err := ex.get(s, fr, x.Index)
		if err != nil {
			return nil, nil, err
		}
		if sv, ok := v.(StringV); ok {
			return ex.indexValue(s, fr, x, sv, kv.(*Term), isSigned(x.Index.Type()))
		}
		r, err := ex.mapLookup(s, v.(MapV), kv, x.X.Type().Underlying().(*types.Map), x.CommaOk)
		if err != nil {
			return nil, nil, err
		}
		fr.Locals[x] = r

	case *ssa.MakeClosure:
		bind := make([]Value, len(x.Bindings))
		for i, b := range x.Bindings {
			v, err := ex.get(s, fr, b)
			if err != nil {
				return nil, nil, err
			}
			bind[i] = v
		}
		fr.Locals[x] = &FuncV{Fn: x.Fn.(*ssa.Function), Bind: bind}

	case *ssa.MakeInterface:
		v, err := ex.get(s, fr, x.X)
		if err != nil {
			return nil, nil, err
		}
		fr.Locals[x] = IfaceV{T: x.X.Type(), V: v}

	case *ssa.MakeSlice:
		lv, err := ex.get(s, fr, x.Len)
		if err != nil {
			return nil, nil, err
		}
		cv, err := ex.get(s, fr, x.Cap)
		if err != nil {
			return nil, nil, err
		}
		lt, ct := lv.(*Term), cv.(*Term)
		if !lt.IsConst() || !ct.IsConst() {
			return ex.concretizeAndRetry(s, fr, []*Term{lt, ct})
		}
		n, cp := int(lt.SInt64()), int(ct.SInt64())
		if n < 0 || cp < n || cp > 1<<24 {
			return nil, nil, &goPanic{"makeslice: len out of range"}
		}
		et := x.Type().Underlying().(*types.Slice).Elem()
		at := types.NewArray(et, int64(cp))
		id := ex.newObject(s, ex.zero(at), at)
		fr.Locals[x] = SliceV{Obj: id, Len: n, Cap: cp}

	case *ssa.MakeMap:
		id := ex.newObject(s, &MapObj{K: map[string]Value{}, V: map[string]Value{}}, x.Type())
		fr.Locals[x] = MapV{Obj: id}

	case *ssa.MapUpdate:
		mv, err := ex.get(s, fr, x.Map)
		if err != nil {
			return nil, nil, err
		}
		kv, err := ex.get(s, fr, x.Key)
		if err != nil {
			return nil, nil, err
		}
		vv, err := ex.get(s, fr, x.Value)
		if err != nil {
			return nil, nil, err
		}
		m := mv.(MapV)
		if m.Obj == 0 {
			return nil, nil, &goPanic{"assignment to entry in nil map"}
		}
		ks, ok := canonKey(kv)
		if !ok {
			return nil, nil, unsupported("map update with symbolic key")
		}
		o := ex.writable(s, m.Obj)
		mo := o.V.(*MapObj)
		if _, ok := mo.V[ks]; !ok {
			mo.Keys = append(mo.Keys, ks)
			mo.K[ks] = kv
		}
		mo.V[ks] = deepCopy(vv)

	case *ssa.Range:
		v, err := ex.get(s, fr, x.X)
		if err != nil {
			return nil, nil, err
		}
		switch it := v.(type) {
		case StringV:
			id := ex.newObject(s, &iterObj{str: it}, nil)
			fr.Locals[x] = Ptr{Obj: id}
		case MapV:
			io := &iterObj{isMap: true}
			if it.Obj != 0 {
				mo := s.Heap[it.Obj].V.(*MapObj)
				io.keys = append([]string{}, mo.Keys...)
				sort.Strings(io.keys)
				io.m = it
			}
			id := ex.newObject(s, io, nil)
			fr.Locals[x] = Ptr{Obj: id}
		default:
			return nil, nil, unsupported("range over %T", v)
		}

	case *ssa.Next:
		v, err := ex.get(s, fr, x.Iter)
		if err != nil {
			return nil, nil, err
		}
		return ex.next(s, fr, x, v.(Ptr))

	case *ssa.Slice:
		return ex.sliceOp(s, fr, x)

	case *ssa.SliceToArrayPointer:
		v, err := ex.get(s, fr, x.X)
		if err != nil {
			return nil, nil, err
		}
		sl := v.(SliceV)
		n := int(x.Type().(*types.Pointer).Elem().Underlying().(*types.Array).Len())
		if sl.Len < n {
			return nil, nil, &goPanic{"slice to array pointer: slice too short"}
		}
		if sl.Obj == 0 {
			fr.Locals[x] = Ptr{}
			break
		}
		// only supported when the slice covers the whole backing array from offset 0
		o := s.Heap[sl.Obj]
		arr, err := ex.loadPath(o.V, sl.Path)
		if err != nil {
			return nil, nil, err
		}
		if av, ok := arr.(*ArrayV); ok && sl.Off == 0 && len(av.E) == n {
			fr.Locals[x] = Ptr{Obj: sl.Obj, Path: sl.Path}
		} else {
			return nil, nil, unsupported("slice-to-array-pointer on a sub-slice")
		}

	case *ssa.Store:
		pv, err := ex.get(s, fr, x.Addr)
		if err != nil {
			return nil, nil, err
		}
		v, err := ex.get(s, fr, x.Val)
		if err != nil {
			if s.Lenient {
				v = Poison{"stored poison"}
			} else {
				return nil, nil, err
			}
		}
		if err := ex.store(s, pv.(Ptr), v); err != nil {
			return nil, nil, err
		}

	case *ssa.TypeAssert:
		v, err := ex.get(s, fr, x.X)
		if err != nil {
			return nil, nil, err
		}
		iv, ok := v.(IfaceV)
		if !ok {
			return nil, nil, &execError{fmt.Sprintf("INTERNAL typeassert on %T", v)}
		}
		okv := false
		var res Value
		if iv.T != nil {
			if types.IsInterface(x.AssertedType) {
				if it, isI := x.AssertedType.Underlying().(*types.Interface); isI {
					okv = types.Implements(iv.T, it)
				}
				res = iv
			} else {
				okv = types.Identical(iv.T, x.AssertedType)
				res = iv.V
			}
		}
		if x.CommaOk {
			if !okv {
				res = ex.zero(x.AssertedType)
			}
			fr.Locals[x] = TupleV{res, c.Bool(okv)}
		} else {
			if !okv {
				return nil, nil, &goPanic{"interface conversion: type assertion failed"}
			}
			fr.Locals[x] = res
		}

	default:
		return nil, nil, unsupported("instruction %T", in)
	}
	fr.IP++
	return nil, nil, nil
}

func (ex *Exec) doReturn(s *State, res Value) {
	callee := s.top()
	if len(callee.Defers) > 0 && !callee.RunningDefs {
		// functions with defers always have RunDefers before Return in SSA
	}
	s.Stack = s.Stack[:len(s.Stack)-1]
	if len(s.Stack) == 0 {
		s.Status = Done
		s.Result = res
		return
	}
	caller := s.top()
	if callee.Catch {
		res = ex.Ctx.False()
	}
	if callee.Call != nil {
		caller.Locals[callee.Call] = res
	}
	caller.IP++
}

type iterObj struct {
	str   StringV
	pos   int
	isMap bool
	keys  []string
	m     MapV
}

func (it *iterObj) Copy() Value { n := *it; return &n }

func (ex *Exec) next(s *State, fr *Frame, x *ssa.Next, p Ptr) ([]*State, *stopPoint, error) {
	c := ex.Ctx
	o := ex.writable(s, p.Obj)
	it := o.V.(*iterObj)
	if x.IsString {
		if it.pos >= len(it.str.B) {
			fr.Locals[x] = TupleV{c.False(), c.BV(64, 0), c.BV(32, 0)}
			fr.IP++
			return nil, nil, nil
		}
		b := it.str.B[it.pos]
		if b.IsConst() && b.U >= 0x80 {
			// concrete multi-byte: decode natively if the whole rune is concrete
			bs := []byte{}
			for k := it.pos; k < len(it.str.B) && k < it.pos+4; k++ {
				if !it.str.B[k].IsConst() {
					break
				}
				bs = append(bs, byte(it.str.B[k].U))
			}
			r, sz := decodeRune(bs)
			fr.Locals[x] = TupleV{c.True(), c.BV(64, uint64(it.pos)), c.BV(32, uint64(r))}
			it.pos += sz
			fr.IP++
			return nil, nil, nil
		}
		// symbolic byte: require ASCII (non-ASCII is outside the modelled fragment)
		if !b.IsConst() {
			na := c.Cmp(OUle, c.BV(8, 0x80), b)
			if r := ex.checkSat(s, na); r != Unsat {
				return nil, nil, unsupported("range over string with possibly non-ASCII symbolic byte")
			}
		}
		fr.Locals[x] = TupleV{c.True(), c.BV(64, uint64(it.pos)), c.ZExt(b, 32)}
		it.pos++
		fr.IP++
		return nil, nil, nil
	}
	// map
	if it.pos >= len(it.keys) {
		fr.Locals[x] = TupleV{c.False(), nil, nil}
		fr.IP++
		return nil, nil, nil
	}
	mo := s.Heap[it.m.Obj].V.(*MapObj)
	k := it.keys[it.pos]
	it.pos++
	fr.Locals[x] = TupleV{c.True(), mo.K[k], deepCopy(mo.V[k])}
	fr.IP++
	return nil, nil, nil
}

func decodeRune(b []byte) (rune, int) {
	r := []rune(string(b))
	if len(r) == 0 {
		return 0xFFFD, 1
	}
	n := len(string(r[0]))
	if r[0] == 0xFFFD {
		n = 1
	}
	return r[0], n
}

func canonKey(v Value) (string, bool) {
	switch x := v.(type) {
	case *Term:
		if x.IsConst() {
			return "t:" + x.BigVal().String(), true
		}
	case StringV:
		if s, ok := x.Concrete(); ok {
			return "s:" + s, true
		}
	case *ArrayV:
		var sb strings.Builder
		sb.WriteString("a:")
		for _, e := range x.E {
			k, ok := canonKey(e)
			if !ok {
				return "", false
			}
			sb.WriteString(k + ",")
		}
		return sb.String(), true
	case IfaceV:
		if x.T == nil {
			return "i:nil", true
		}
		k, ok := canonKey(x.V)
		return "i:" + x.T.String() + ":" + k, ok
	case Ptr:
		return fmt.Sprintf("p:%d:%v", x.Obj, x.Path), true
	}
	return "", false
}

func (ex *Exec) mapLookup(s *State, m MapV, k Value, mt *types.Map, commaOk bool) (Value, error) {
	c := ex.Ctx
	zero := ex.zero(mt.Elem())
	if m.Obj == 0 {
		if commaOk {
			return TupleV{zero, c.False()}, nil
		}
		return zero, nil
	}
	mo := s.Heap[m.Obj].V.(*MapObj)
	if ks, ok := canonKey(k); ok {
		v, found := mo.V[ks]
		if !found {
			v = zero
		}
		v = deepCopy(v)
		if commaOk {
			return TupleV{v, c.Bool(found)}, nil
		}
		return v, nil
	}
	// symbolic key: ite chain over entries (scalars and equal-length strings)
	var res Value = zero
	found := c.False()
	for _, ks := range mo.Keys {
		eq, err := ex.valuesEqual(k, mo.K[ks])
		if err != nil {
			return nil, err
		}
		if eq.IsFalse() {
			continue
		}
		mv, ok := c.mergeVal(eq, mo.V[ks], res)
		if !ok {
			return nil, unsupported("symbolic map lookup with non-mergeable values")
		}
		res = mv
		found = c.BOr(found, eq)
	}
	if commaOk {
		return TupleV{res, found}, nil
	}
	return res, nil
}

// concretizeAndRetry forks on all feasible values of the first non-constant term; the
// instruction is re-executed in each successor with the value pinned.
func (ex *Exec) concretizeAndRetry(s *State, fr *Frame, ts []*Term) ([]*State, *stopPoint, error) {
	var t *Term
	for _, x := range ts {
		if !x.IsConst() {
			t = x
			break
		}
	}
	var out []*State
	cur := s
	for n := 0; n < 300; n++ {
		res, model := ex.Solver.Check(cur.PC, []*Term{t})
		if res == Unknown {
			return nil, nil, unsupported("concretisation: solver unknown")
		}
		if res == Unsat {
			break
		}
		if model[t] == nil {
			return nil, nil, unsupported("concretisation: no model value for %s", t)
		}
		val := ex.Ctx.BVBig(t.S.W, model[t])
		eq := ex.Ctx.Eq(t, val)
		alt := ex.clone(cur)
		alt.PC = append(alt.PC, eq)
		alt.Barrier = alt.Steps + 1
		ex.pinLocals(alt, t, val)
		out = append(out, alt)
		cur.PC = append(cur.PC, ex.Ctx.BNot(eq))
	}
	if len(out) >= 300 {
		return nil, nil, unsupported("concretisation: more than 300 values")
	}
	cur.Status = Infeasible
	out = append(out, cur)
	return out, nil, nil
}

// pinLocals replaces occurrences of term t (as a whole local value) by val in the top frame.
func (ex *Exec) pinLocals(s *State, t, val *Term) {
	fr := s.top()
	for k, v := range fr.Locals {
		if tv, ok := v.(*Term); ok && tv == t {
			fr.Locals[k] = val
		}
	}
}
