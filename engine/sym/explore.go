package sym

import (
	"time"
	"sort"

	"golang.org/x/tools/go/ssa"
)

// ---------------------------------------------------------------- per-function analyses

type fnInfo struct {
	order   []int     // loop-aware topological index per block
	loops   [][]int   // per block: enclosing loop headers (block indices), outer -> inner
	liveOut []map[ssa.Value]bool
}

func (ex *Exec) info(fn *ssa.Function) *fnInfo {
	if fi, ok := ex.fninfo[fn]; ok {
		return fi
	}
	fi := analyse(fn)
	ex.fninfo[fn] = fi
	return fi
}

func analyse(fn *ssa.Function) *fnInfo {
	n := len(fn.Blocks)
	fi := &fnInfo{order: make([]int, n), loops: make([][]int, n), liveOut: make([]map[ssa.Value]bool, n)}
	// natural loops
	body := map[int]map[int]bool{} // header -> body set
	for _, u := range fn.Blocks {
		for _, h := range u.Succs {
			if h.Dominates(u) {
				bs := body[h.Index]
				if bs == nil {
					bs = map[int]bool{h.Index: true}
					body[h.Index] = bs
				}
				// nodes reaching u without passing h
				stack := []*ssa.BasicBlock{u}
				for len(stack) > 0 {
					x := stack[len(stack)-1]
					stack = stack[:len(stack)-1]
					if bs[x.Index] {
						continue
					}
					bs[x.Index] = true
					for _, p := range x.Preds {
						stack = append(stack, p)
					}
				}
			}
		}
	}
	var headers []int
	for h := range body {
		headers = append(headers, h)
	}
	sort.Slice(headers, func(i, j int) bool {
		if len(body[headers[i]]) != len(body[headers[j]]) {
			return len(body[headers[i]]) > len(body[headers[j]])
		}
		return headers[i] < headers[j]
	})
	for b := 0; b < n; b++ {
		for _, h := range headers {
			if body[h][b] {
				fi.loops[b] = append(fi.loops[b], h)
			}
		}
	}
	inner := func(b int) map[int]bool {
		l := fi.loops[b]
		if len(l) == 0 {
			return nil
		}
		return body[l[len(l)-1]]
	}
	// loop-aware order: DFS visiting loop-exiting successors first
	visited := make([]bool, n)
	var post []int
	var dfs func(b *ssa.BasicBlock)
	dfs = func(b *ssa.BasicBlock) {
		visited[b.Index] = true
		succs := append([]*ssa.BasicBlock{}, b.Succs...)
		in := inner(b.Index)
		depthOf := func(s *ssa.BasicBlock) int {
			// number of loops of b that still contain s (fewer = exits more loops)
			k := 0
			for _, h := range fi.loops[b.Index] {
				if body[h][s.Index] {
					k++
				}
			}
			return k
		}
		_ = in
		sort.SliceStable(succs, func(i, j int) bool { return depthOf(succs[i]) < depthOf(succs[j]) })
		for _, s := range succs {
			if !visited[s.Index] {
				dfs(s)
			}
		}
		post = append(post, b.Index)
	}
	if n > 0 {
		dfs(fn.Blocks[0])
	}
	for i := range fi.order {
		fi.order[i] = n + i // unreachable blocks last
	}
	for i, b := range post {
		fi.order[b] = len(post) - 1 - i
	}
	// liveness
	isLocal := func(v ssa.Value) bool {
		switch v.(type) {
		case *ssa.Const, *ssa.Global, *ssa.Function, *ssa.Builtin:
			return false
		}
		return v != nil
	}
	liveIn := make([]map[ssa.Value]bool, n) // after the phis
	for i := range liveIn {
		liveIn[i] = map[ssa.Value]bool{}
		fi.liveOut[i] = map[ssa.Value]bool{}
	}
	changed := true
	var ops []*ssa.Value
	for changed {
		changed = false
		for bi := n - 1; bi >= 0; bi-- {
			b := fn.Blocks[bi]
			out := fi.liveOut[bi]
			for _, s := range b.Succs {
				idx := -1
				for k, p := range s.Preds {
					if p == b {
						idx = k
					}
				}
				phis := map[ssa.Value]bool{}
				for _, in := range s.Instrs {
					phi, ok := in.(*ssa.Phi)
					if !ok {
						break
					}
					phis[phi] = true
					if e := phi.Edges[idx]; isLocal(e) && !out[e] {
						out[e] = true
						changed = true
					}
				}
				for v := range liveIn[s.Index] {
					if !phis[v] && !out[v] {
						out[v] = true
						changed = true
					}
				}
			}
			live := map[ssa.Value]bool{}
			for v := range out {
				live[v] = true
			}
			for k := len(b.Instrs) - 1; k >= 0; k-- {
				in := b.Instrs[k]
				if _, ok := in.(*ssa.Phi); ok {
					break
				}
				if v, ok := in.(ssa.Value); ok {
					delete(live, v)
				}
				ops = in.Operands(ops[:0])
				for _, o := range ops {
					if *o != nil && isLocal(*o) {
						live[*o] = true
					}
				}
			}
			if len(live) != len(liveIn[bi]) {
				changed = true
			} else {
				for v := range live {
					if !liveIn[bi][v] {
						changed = true
						break
					}
				}
			}
			liveIn[bi] = live
		}
	}
	return fi
}

// liveAt: values live just before executing instruction ip of block b.
func (ex *Exec) liveAt(b *ssa.BasicBlock, ip int) map[ssa.Value]bool {
	fi := ex.info(b.Parent())
	live := map[ssa.Value]bool{}
	for v := range fi.liveOut[b.Index] {
		live[v] = true
	}
	var ops []*ssa.Value
	for k := len(b.Instrs) - 1; k >= ip; k-- {
		in := b.Instrs[k]
		if v, ok := in.(ssa.Value); ok {
			delete(live, v)
		}
		if _, isPhi := in.(*ssa.Phi); isPhi {
			continue
		}
		ops = in.Operands(ops[:0])
		for _, o := range ops {
			if *o == nil {
				continue
			}
			switch (*o).(type) {
			case *ssa.Const, *ssa.Global, *ssa.Function, *ssa.Builtin:
			default:
				live[*o] = true
			}
		}
	}
	return live
}

// ---------------------------------------------------------------- ordering

func sign(x int) int {
	if x < 0 {
		return -1
	}
	if x > 0 {
		return 1
	}
	return 0
}

// cmpStates: -1 if a is behind b in execution order, +1 if ahead, 0 if same position.
func (ex *Exec) cmpStates(a, b *State) int {
	n := len(a.Stack)
	if len(b.Stack) < n {
		n = len(b.Stack)
	}
	for i := 0; i < n; i++ {
		fa, fb := a.Stack[i], b.Stack[i]
		if fa.Fn != fb.Fn {
			return sign(a.ID - b.ID)
		}
		if fa.Block == nil || fb.Block == nil {
			continue
		}
		fi := ex.info(fa.Fn)
		la, lb := fi.loops[fa.Block.Index], fi.loops[fb.Block.Index]
		for k := 0; k < len(la) && k < len(lb); k++ {
			if la[k] != lb[k] {
				break
			}
			if d := fa.Visits[la[k]] - fb.Visits[la[k]]; d != 0 {
				return sign(d)
			}
		}
		if d := fi.order[fa.Block.Index] - fi.order[fb.Block.Index]; d != 0 {
			return sign(d)
		}
		if d := fa.IP - fb.IP; d != 0 {
			return sign(d)
		}
	}
	return sign(len(a.Stack) - len(b.Stack))
}

func samePos(a, b *State) bool {
	if len(a.Stack) != len(b.Stack) {
		return false
	}
	for i := range a.Stack {
		fa, fb := a.Stack[i], b.Stack[i]
		if fa.Fn != fb.Fn || fa.Block != fb.Block || fa.IP != fb.IP || fa.Catch != fb.Catch || fa.Call != fb.Call || len(fa.Defers) != len(fb.Defers) {
			return false
		}
	}
	return true
}

// ---------------------------------------------------------------- exploration

func (ex *Exec) exploreAll(s0 *State) {
	wl := []*State{s0}
	for len(wl) > 0 {
		// pick the state furthest behind
		bi := 0
		for i := 1; i < len(wl); i++ {
			if ex.cmpStates(wl[i], wl[bi]) < 0 {
				bi = i
			}
		}
		s := wl[bi]
		wl = append(wl[:bi], wl[bi+1:]...)
		if !ex.NoMerge {
			for i := 0; i < len(wl); {
				if s.Steps > s.Barrier && wl[i].Steps > wl[i].Barrier && s.Choice == wl[i].Choice && samePos(s, wl[i]) && ex.cmpStates(s, wl[i]) == 0 {
					if ex.mergeInto(s, wl[i]) {
						ex.Merges++
						wl = append(wl[:i], wl[i+1:]...)
						continue
					}
					ex.MergeFails++
				}
				i++
			}
		}
		// run to the next boundary
		alone := len(wl) == 0
		for {
			if s.Status != Running {
				ex.finish(s)
				break
			}
			if len(ex.Finished) > ex.MaxPaths {
				s.Status, s.Msg = Errored, "UNWIND path limit exceeded"
				ex.finish(s)
				break
			}
			if !ex.Deadline.IsZero() && s.Steps&255 == 0 && time.Now().After(ex.Deadline) {
				s.Status, s.Msg = Errored, "DEADLINE run-wide time limit reached before this path finished"
				ex.finish(s)
				break
			}
			boundary := ex.atBoundary(s)
			succ, _ := ex.step(s)
			if len(succ) > 1 {
				ex.Forks++
				for _, t := range succ {
					if t.Status != Running {
						ex.finish(t)
					} else {
						wl = append(wl, t)
					}
				}
				break
			}
			if len(succ) == 1 {
				s = succ[0]
			}
			if boundary && !alone && s.Status == Running {
				wl = append(wl, s)
				break
			}
		}
	}
}

// atBoundary: the next instruction transfers control (jump, branch, call, return).
func (ex *Exec) atBoundary(s *State) bool {
	fr := s.top()
	if fr.Block == nil || fr.IP >= len(fr.Block.Instrs) {
		return true
	}
	switch fr.Block.Instrs[fr.IP].(type) {
	case *ssa.Jump, *ssa.If, *ssa.Return, *ssa.Call, *ssa.Panic, *ssa.RunDefers:
		return true
	}
	return false
}

// mergeInto merges b into a (both at the same position). On failure a is unchanged.
func (ex *Exec) mergeInto(a, b *State) bool {
	c := ex.Ctx
	// path conditions
	k := 0
	for k < len(a.PC) && k < len(b.PC) && a.PC[k] == b.PC[k] {
		k++
	}
	gA := c.BAnd(a.PC[k:]...)
	gB := c.BAnd(b.PC[k:]...)
	if gA.IsTrue() || gB.IsTrue() {
		return false
	}
	// locals of every frame (live values only)
	newLocals := make([]map[ssa.Value]Value, len(a.Stack))
	for i := range a.Stack {
		fa, fb := a.Stack[i], b.Stack[i]
		if fa.Block == nil {
			return false
		}
		ip := fa.IP
		if i < len(a.Stack)-1 {
			ip++ // suspended at a call: live after the call returns
		}
		live := ex.liveAt(fa.Block, ip)
		nl := make(map[ssa.Value]Value, len(live))
		for v := range live {
			va, oka := fa.Locals[v]
			vb, okb := fb.Locals[v]
			if !oka && !okb {
				continue
			}
			if !oka || !okb {
				return false
			}
			m, ok := c.mergeVal(gB, vb, va)
			if !ok {
				return false
			}
			nl[v] = m
		}
		for d := range fa.Defers {
			da, db := fa.Defers[d], fb.Defers[d]
			if !valuesIdentical(da.fn, db.fn) || len(da.args) != len(db.args) {
				return false
			}
			for j := range da.args {
				if !valuesIdentical(da.args[j], db.args[j]) {
					return false
				}
			}
		}
		newLocals[i] = nl
	}
	// heap
	type upd struct {
		id int
		o  *Object
	}
	var upds []upd
	var unmergeable []int
	for id, oa := range a.Heap {
		ob, ok := b.Heap[id]
		if !ok || oa == ob {
			continue
		}
		m, ok := c.mergeVal(gB, ob.V, oa.V)
		if !ok {
			unmergeable = append(unmergeable, id)
			continue
		}
		upds = append(upds, upd{id, &Object{V: m, Type: oa.Type}})
	}
	if len(unmergeable) > 0 {
		ra, rb := ex.reachable(a), ex.reachable(b)
		for _, id := range unmergeable {
			if ra[id] || rb[id] {
				return false
			}
		}
		for _, id := range unmergeable {
			upds = append(upds, upd{id, &Object{V: Poison{"dead object diverged between merged paths"}, Type: a.Heap[id].Type}})
		}
	}
	for id, ob := range b.Heap {
		if _, ok := a.Heap[id]; !ok {
			upds = append(upds, upd{id, ob})
		}
	}
	// commit
	a.Epoch = ex.newEpoch()
	for _, u := range upds {
		if u.o.Owner == 0 {
			u.o.Owner = a.Epoch
		}
		a.Heap[u.id] = u.o
	}
	for i := range a.Stack {
		fa, fb := a.Stack[i], b.Stack[i]
		fa.Locals = newLocals[i]
		for h, v := range fb.Visits {
			if v > fa.Visits[h] {
				fa.Visits[h] = v
			}
		}
	}
	a.PC = append([]*Term{}, a.PC[:k]...)
	if mg := c.BOr(gA, gB); !mg.IsTrue() {
		a.PC = append(a.PC, mg)
	}
	for n, v := range b.SymCount {
		if v > a.SymCount[n] {
			a.SymCount[n] = v
		}
	}
	have := map[string]bool{}
	for _, r := range a.Syms {
		have[r.Name] = true
	}
	for _, r := range b.Syms {
		if !have[r.Name] {
			a.Syms = append(a.Syms, r)
		}
	}
	if b.Steps > a.Steps {
		a.Steps = b.Steps
	}
	return true
}

func (it *iterObj) Identical(o Value) bool {
	x, ok := o.(*iterObj)
	if !ok || it.pos != x.pos || it.isMap != x.isMap || it.m != x.m || len(it.keys) != len(x.keys) {
		return false
	}
	return valuesIdentical(it.str, x.str)
}

func (m *MapObj) Identical(o Value) bool {
	x, ok := o.(*MapObj)
	if !ok || len(m.Keys) != len(x.Keys) {
		return false
	}
	for k, v := range m.V {
		xv, ok := x.V[k]
		if !ok || !valuesIdentical(v, xv) {
			return false
		}
	}
	return true
}

// reachable: ids of objects reachable from the live locals of every frame and from
// global / boot objects modified since the harness started.
func (ex *Exec) reachable(s *State) map[int]bool {
	seen := map[int]bool{}
	var stack []int
	var visit func(v Value)
	push := func(id int) {
		if id != 0 && !seen[id] {
			seen[id] = true
			stack = append(stack, id)
		}
	}
	visit = func(v Value) {
		switch x := v.(type) {
		case Ptr:
			push(x.Obj)
		case SliceV:
			push(x.Obj)
		case MapV:
			push(x.Obj)
		case IfaceV:
			visit(x.V)
		case *StructV:
			for _, f := range x.F {
				visit(f)
			}
		case *ArrayV:
			for _, e := range x.E {
				switch e.(type) {
				case *Term, nil:
				default:
					visit(e)
				}
			}
		case *FuncV:
			if x != nil {
				for _, b := range x.Bind {
					visit(b)
				}
			}
		case TupleV:
			for _, e := range x {
				visit(e)
			}
		case *MapObj:
			for _, k := range x.Keys {
				visit(x.K[k])
				visit(x.V[k])
			}
		case *iterObj:
			visit(x.m)
		case refHolder:
			for _, r := range x.Refs() {
				visit(r)
			}
		}
	}
	for i, fr := range s.Stack {
		if fr.Block == nil {
			continue
		}
		ip := fr.IP
		if i < len(s.Stack)-1 {
			ip++
		}
		for v := range ex.liveAt(fr.Block, ip) {
			if lv, ok := fr.Locals[v]; ok {
				visit(lv)
			}
		}
		for _, d := range fr.Defers {
			visit(d.fn)
			for _, a := range d.args {
				visit(a)
			}
		}
	}
	for id, o := range s.Heap {
		if id <= ex.bootMaxObj || ex.globalSet[id] {
			if bo, ok := ex.Boot.Heap[id]; !ok || bo != o {
				push(id)
			}
		}
	}
	for len(stack) > 0 {
		id := stack[len(stack)-1]
		stack = stack[:len(stack)-1]
		o := s.Heap[id]
		if o == nil {
			continue
		}
		if id <= ex.bootMaxObj {
			if bo, ok := ex.Boot.Heap[id]; ok && bo == o {
				continue // unmodified boot object: points to boot objects only
			}
		}
		visit(o.V)
	}
	return seen
}

type refHolder interface{ Refs() []Value }

// ---------------------------------------------------------------- post-dominators (for lazy diamonds)

func (ex *Exec) ipdom(b *ssa.BasicBlock) *ssa.BasicBlock {
	fn := b.Parent()
	m, ok := ex.pdoms[fn]
	if !ok {
		m = computeIPdom(fn)
		ex.pdoms[fn] = m
	}
	return m[b]
}

// computeIPdom: immediate post-dominators, treating only Return blocks as exits
// (paths ending in panic are ignored).
func computeIPdom(fn *ssa.Function) map[*ssa.BasicBlock]*ssa.BasicBlock {
	n := len(fn.Blocks)
	exit := n
	succs := make([][]int, n+1)
	preds := make([][]int, n+1)
	for _, b := range fn.Blocks {
		if len(b.Instrs) > 0 {
			if _, ok := b.Instrs[len(b.Instrs)-1].(*ssa.Return); ok {
				succs[b.Index] = append(succs[b.Index], exit)
				preds[exit] = append(preds[exit], b.Index)
			}
		}
		for _, sc := range b.Succs {
			succs[b.Index] = append(succs[b.Index], sc.Index)
			preds[sc.Index] = append(preds[sc.Index], b.Index)
		}
	}
	order := []int{}
	seen := make([]bool, n+1)
	var dfs func(int)
	dfs = func(u int) {
		seen[u] = true
		for _, p := range preds[u] {
			if !seen[p] {
				dfs(p)
			}
		}
		order = append(order, u)
	}
	dfs(exit)
	rpo := make([]int, n+1)
	for i := range rpo {
		rpo[i] = -1
	}
	for i, u := range order {
		rpo[u] = len(order) - 1 - i
	}
	idom := make([]int, n+1)
	for i := range idom {
		idom[i] = -1
	}
	idom[exit] = exit
	intersect := func(a, b int) int {
		for a != b {
			for rpo[a] > rpo[b] {
				a = idom[a]
			}
			for rpo[b] > rpo[a] {
				b = idom[b]
			}
		}
		return a
	}
	changed := true
	for changed {
		changed = false
		for i := len(order) - 1; i >= 0; i-- {
			u := order[i]
			if u == exit {
				continue
			}
			ni := -1
			for _, sc := range succs[u] {
				if rpo[sc] < 0 || idom[sc] < 0 {
					continue
				}
				if ni < 0 {
					ni = sc
				} else {
					ni = intersect(ni, sc)
				}
			}
			if ni >= 0 && idom[u] != ni {
				idom[u] = ni
				changed = true
			}
		}
	}
	res := map[*ssa.BasicBlock]*ssa.BasicBlock{}
	for _, b := range fn.Blocks {
		if d := idom[b.Index]; d >= 0 && d != exit {
			res[b] = fn.Blocks[d]
		}
	}
	return res
}

// lazyDiamond: the branch at the end of b rejoins at a post-dominator inside the same
// innermost loop, and neither arm contains calls or loops: both arms may be explored without
// asking the solver (an infeasible arm just contributes an unsatisfiable guard to the merge).
func (ex *Exec) lazyDiamond(b *ssa.BasicBlock) bool {
	if v, ok := ex.lazyCache[b]; ok {
		return v
	}
	res := false
	defer func() { ex.lazyCache[b] = res }()
	j := ex.ipdom(b)
	fi := ex.info(b.Parent())
	lb := fi.loops[b.Index]
	if j != nil {
		lj := fi.loops[j.Index]
		if len(lb) != len(lj) {
			return false
		}
		for i := range lb {
			if lb[i] != lj[i] {
				return false
			}
		}
	}
	// j == nil: all arms must end in plain returns (they rejoin in the caller right after the call)
	// region between b and j: small, acyclic (no block of a deeper loop), no calls
	seen := map[*ssa.BasicBlock]bool{}
	stack := append([]*ssa.BasicBlock{}, b.Succs...)
	count := 0
	for len(stack) > 0 {
		x := stack[len(stack)-1]
		stack = stack[:len(stack)-1]
		if x == j || seen[x] {
			continue
		}
		if x == b {
			return false
		}
		seen[x] = true
		count++
		if count > 12 || len(fi.loops[x.Index]) != len(lb) {
			return false
		}
		for _, in := range x.Instrs {
			switch in.(type) {
			case *ssa.Call, *ssa.Go, *ssa.Defer, *ssa.Panic, *ssa.RunDefers, *ssa.Select, *ssa.Send:
				return false
			case *ssa.Return:
				if j != nil {
					return false
				}
			}
		}
		stack = append(stack, x.Succs...)
	}
	res = true
	return true
}
