package sym

import (
	"fmt"
	"os"
	"path/filepath"
	"go/types"
	"strconv"
	"strings"

	"golang.org/x/tools/go/ssa"
)

func registerModels(ex *Exec) {
	m := ex.Models
	// ---- intrinsics
	m["intrinsic:verifU8"] = func(ex *Exec, s *State, cc *ssa.CallCommon, a []Value) (Value, *Fork, error) {
		return ex.freshScalar(s, a[0], "u8", 8)
	}
	m["intrinsic:verifU16"] = func(ex *Exec, s *State, cc *ssa.CallCommon, a []Value) (Value, *Fork, error) {
		return ex.freshScalar(s, a[0], "u16", 16)
	}
	m["intrinsic:verifU32"] = func(ex *Exec, s *State, cc *ssa.CallCommon, a []Value) (Value, *Fork, error) {
		return ex.freshScalar(s, a[0], "u32", 32)
	}
	m["intrinsic:verifU64"] = func(ex *Exec, s *State, cc *ssa.CallCommon, a []Value) (Value, *Fork, error) {
		return ex.freshScalar(s, a[0], "u64", 64)
	}
	m["intrinsic:verifInt"] = func(ex *Exec, s *State, cc *ssa.CallCommon, a []Value) (Value, *Fork, error) {
		return ex.freshScalar(s, a[0], "int", 64)
	}
	m["intrinsic:verifI8"] = func(ex *Exec, s *State, cc *ssa.CallCommon, a []Value) (Value, *Fork, error) {
		return ex.freshScalar(s, a[0], "u8", 8)
	}
	m["intrinsic:verifBool"] = func(ex *Exec, s *State, cc *ssa.CallCommon, a []Value) (Value, *Fork, error) {
		name, err := ex.symName(s, a[0])
		if err != nil {
			return nil, nil, err
		}
		t := ex.Ctx.Var(name, SBool)
		s.Syms = append(s.Syms, SymRec{Name: name, Kind: "bool", Terms: []*Term{t}})
		return t, nil, nil
	}
	m["intrinsic:verifBytes"] = func(ex *Exec, s *State, cc *ssa.CallCommon, a []Value) (Value, *Fork, error) {
		bs, err := ex.freshBytes(s, a[0], a[1])
		if err != nil {
			return nil, nil, err
		}
		return ex.newByteSlice(s, bs), nil, nil
	}
	m["intrinsic:verifString"] = func(ex *Exec, s *State, cc *ssa.CallCommon, a []Value) (Value, *Fork, error) {
		bs, err := ex.freshBytes(s, a[0], a[1])
		if err != nil {
			return nil, nil, err
		}
		return StringV{B: bs}, nil, nil
	}
	m["intrinsic:verifAssume"] = func(ex *Exec, s *State, cc *ssa.CallCommon, a []Value) (Value, *Fork, error) {
		c := a[0].(*Term)
		if c.IsTrue() {
			return nil, nil, nil
		}
		if c.IsFalse() || ex.checkSat(s, c) == Unsat {
			s.Status = Infeasible
			return nil, nil, nil
		}
		s.PC = append(s.PC, c)
		return nil, nil, nil
	}
	m["intrinsic:verifAssert"] = func(ex *Exec, s *State, cc *ssa.CallCommon, a []Value) (Value, *Fork, error) {
		id := "?"
		if sv, ok := a[0].(StringV); ok {
			if str, ok := sv.Concrete(); ok {
				id = str
			}
		}
		ex.assert(s, id, a[1].(*Term))
		return nil, nil, nil
	}
	m["intrinsic:verifReach"] = func(ex *Exec, s *State, cc *ssa.CallCommon, a []Value) (Value, *Fork, error) {
		if sv, ok := a[0].(StringV); ok {
			if str, ok := sv.Concrete(); ok {
				ex.Reached[str]++
			}
		}
		return nil, nil, nil
	}
	m["intrinsic:verifChoice"] = func(ex *Exec, s *State, cc *ssa.CallCommon, a []Value) (Value, *Fork, error) {
		name, err := ex.symName(s, a[0])
		if err != nil {
			return nil, nil, err
		}
		kt := a[1].(*Term)
		if !kt.IsConst() {
			return nil, nil, unsupported("verifChoice with symbolic k")
		}
		t := ex.Ctx.Var(name, SBV(64))
		s.Syms = append(s.Syms, SymRec{Name: name, Kind: "int", Terms: []*Term{t}})
		f := &Fork{}
		for i := 0; i < int(kt.U); i++ {
			f.Alts = append(f.Alts, Alt{Cond: ex.Ctx.Eq(t, ex.Ctx.BV(64, uint64(i))), Ret: ex.Ctx.BV(64, uint64(i)), Tag: fmt.Sprintf("%s=%d;", name, i)})
		}
		return nil, f, nil
	}
	m["intrinsic:verifPanics"] = func(ex *Exec, s *State, cc *ssa.CallCommon, a []Value) (Value, *Fork, error) {
		f, ok := a[0].(*FuncV)
		if !ok || f == nil || f.Fn == nil {
			return nil, nil, unsupported("verifPanics needs a function literal")
		}
		fr := s.top()
		nf := ex.newFrame(f.Fn, nil, f.Bind)
		nf.Catch = true
		if in, ok := fr.Block.Instrs[fr.IP].(ssa.Value); ok {
			nf.Call = in
		}
		s.Stack = append(s.Stack, nf)
		return pushed{}, nil, nil
	}
	m["intrinsic:verifUF"] = func(ex *Exec, s *State, cc *ssa.CallCommon, a []Value) (Value, *Fork, error) {
		// verifUF(name string, bits int, in []byte) uint64: an uninterpreted function of the bytes
		nv, ok := a[0].(StringV)
		name, ok2 := nv.Concrete()
		bt := a[1].(*Term)
		if !ok || !ok2 || !bt.IsConst() {
			return nil, nil, unsupported("verifUF needs constant name and width")
		}
		bs, err := ex.sliceBytes(s, a[2].(SliceV))
		if err != nil {
			return nil, nil, err
		}
		bits := int(bt.U)
		var r *Term
		if len(bs) == 0 {
			r = ex.Ctx.Var(fmt.Sprintf("uf_%s_0", name), SBV(bits))
		} else {
			r = ex.Ctx.App(fmt.Sprintf("uf_%s_%d", name, len(bs)), SBV(bits), ex.Ctx.Concat(bs...))
		}
		return ex.Ctx.ZExt(r, 64), nil, nil
	}
	m["intrinsic:verifSymbolic"] = func(ex *Exec, s *State, cc *ssa.CallCommon, a []Value) (Value, *Fork, error) {
		return ex.Ctx.True(), nil, nil
	}
	m["intrinsic:verifVariant"] = func(ex *Exec, s *State, cc *ssa.CallCommon, a []Value) (Value, *Fork, error) {
		return ex.Ctx.BV(64, 0), nil, nil
	}
	m["intrinsic:verifBuildConstraint"] = func(ex *Exec, s *State, cc *ssa.CallCommon, a []Value) (Value, *Fork, error) {
		sv, ok := a[0].(StringV)
		rel, ok2 := sv.Concrete()
		if !ok || !ok2 {
			return nil, nil, unsupported("verifBuildConstraint needs a constant path")
		}
		t, err := ex.buildConstraintTerm(filepath.Join(ex.RepoDir, rel))
		return t, nil, err
	}
	m["intrinsic:verifOpaqueFn"] = func(ex *Exec, s *State, cc *ssa.CallCommon, a []Value) (Value, *Fork, error) {
		// verifOpaqueFn(name string, out, in []uint): out = F_name(in) for an unknown deterministic F
		// (the same input terms give the same output symbols)
		nv, ok := a[0].(StringV)
		name, ok2 := nv.Concrete()
		if !ok || !ok2 {
			return nil, nil, unsupported("verifOpaqueFn needs a constant name")
		}
		out := a[1].(SliceV)
		in, err := ex.sliceElems(s, a[2].(SliceV))
		if err != nil {
			return nil, nil, err
		}
		var kb strings.Builder
		kb.WriteString(name)
		for _, v := range in {
			fmt.Fprintf(&kb, ",%d", v.(*Term).ID)
		}
		key := kb.String()
		res, ok := ex.opaqueMemo[key]
		if !ok {
			k := len(ex.opaqueMemo)
			res = make([]*Term, out.Len)
			for i := range res {
				res[i] = ex.Ctx.Var(fmt.Sprintf("%s!%d!%d", name, k, i), SBV(64))
			}
			ex.opaqueMemo[key] = res
		}
		for i := 0; i < out.Len; i++ {
			if err := ex.store(s, Ptr{Obj: out.Obj, Path: appendPath(out.Path, PE{I: out.Off + i})}, res[i]); err != nil {
				return nil, nil, err
			}
		}
		return nil, nil, nil
	}
	m["intrinsic:verifBig"] = func(ex *Exec, s *State, cc *ssa.CallCommon, a []Value) (Value, *Fork, error) {
		// verifBig(name string, bits int) *big.Int: an arbitrary integer in [0, 2^bits)
		name, err := ex.symName(s, a[0])
		if err != nil {
			return nil, nil, err
		}
		bt := a[1].(*Term)
		if !bt.IsConst() {
			return nil, nil, unsupported("verifBig with symbolic width")
		}
		bits := int(bt.U)
		c := ex.Ctx
		if ex.bigIsInt() {
			v := c.Var(name, SInt)
			s.Syms = append(s.Syms, SymRec{Name: name, Kind: "bigint", Terms: []*Term{v}})
			s.PC = append(s.PC, c.IntOp(OILe, c.IntI(0), v), c.IntOp(OILt, v, c.Int(pow2(bits))))
			return ex.newBig(s, &BigV{T: v}), nil, nil
		}
		if bits > ex.bigW() {
			return nil, nil, unsupported("verifBig wider than the big.Int model")
		}
		v := c.Var(name, SBV(bits))
		s.Syms = append(s.Syms, SymRec{Name: name, Kind: "bigint", Terms: []*Term{v}})
		return ex.newBig(s, &BigV{T: c.ZExt(v, ex.bigW()), MaxBits: bits}), nil, nil
	}
	m["intrinsic:verifAsAssign"] = modelAsAssign
	m["intrinsic:verifObserve"] = func(ex *Exec, s *State, cc *ssa.CallCommon, a []Value) (Value, *Fork, error) {
		return nil, nil, nil
	}

	// ---- fmt / errors
	m["fmt.Errorf"] = modelErrorf
	m["fmt.Sprintf"] = modelSprintf
	// github.com/pkg/errors (used by iota.go): stack traces are irrelevant here
	m["github.com/pkg/errors.New"] = func(ex *Exec, s *State, cc *ssa.CallCommon, a []Value) (Value, *Fork, error) {
		et := ex.lookupType("errors", "errorString")
		if et == nil {
			return nil, nil, unsupported("errors.errorString type not loaded")
		}
		id := ex.newObject(s, &StructV{F: []Value{a[0]}}, et)
		return IfaceV{T: types.NewPointer(et), V: Ptr{Obj: id}}, nil, nil
	}
	pkgWrap := func(ex *Exec, s *State, cc *ssa.CallCommon, a []Value) (Value, *Fork, error) {
		iv, _ := a[0].(IfaceV)
		if iv.T == nil {
			return IfaceV{}, nil, nil
		}
		wt := ex.lookupType("fmt", "wrapError")
		if wt == nil {
			return nil, nil, unsupported("fmt.wrapError type not loaded")
		}
		id := ex.newObject(s, &StructV{F: []Value{a[1], iv}}, wt)
		return IfaceV{T: types.NewPointer(wt), V: Ptr{Obj: id}}, nil, nil
	}
	m["github.com/pkg/errors.Wrap"] = pkgWrap
	m["github.com/pkg/errors.Wrapf"] = pkgWrap
	m["fmt.Sprint"] = func(ex *Exec, s *State, cc *ssa.CallCommon, a []Value) (Value, *Fork, error) {
		return ex.strConst("<fmt.Sprint>"), nil, nil
	}
	ex.ReplaceByGo["errors.Is"] = "verifModelErrorsIs"
	ex.ReplaceByGo["errors.As"] = "verifModelErrorsAs"
	ex.ReplaceByGo["strings.Index"] = "verifModelStringsIndex"
	ex.ReplaceByGo["strings.IndexByte"] = "verifModelIndexByteString"
	ex.ReplaceByGo["internal/bytealg.IndexByteString"] = "verifModelIndexByteString"
	ex.ReplaceByGo["internal/bytealg.IndexByte"] = "verifModelIndexByte"
	ex.ReplaceByGo["bytes.IndexByte"] = "verifModelIndexByte"
	ex.ReplaceByGo["internal/bytealg.CountString"] = "verifModelCountString"
	ex.ReplaceByGo["strings.Count"] = "verifModelStringsCount"
	ex.ReplaceByGo["(*sync.Pool).Get"] = "verifModelPoolGet"
	ex.ReplaceByGo["(*sync.Pool).Put"] = "verifModelPoolPut"

	// ---- strings
	m["strings.ToLower"] = func(ex *Exec, s *State, cc *ssa.CallCommon, a []Value) (Value, *Fork, error) {
		return ex.asciiCase(s, a[0].(StringV), 'A', 'Z', 0x20)
	}
	m["strings.ToUpper"] = func(ex *Exec, s *State, cc *ssa.CallCommon, a []Value) (Value, *Fork, error) {
		return ex.asciiCase(s, a[0].(StringV), 'a', 'z', 0xE0)
	}
	m["(*strings.Builder).Grow"] = func(ex *Exec, s *State, cc *ssa.CallCommon, a []Value) (Value, *Fork, error) {
		return nil, nil, nil
	}
	m["(*strings.Builder).WriteString"] = func(ex *Exec, s *State, cc *ssa.CallCommon, a []Value) (Value, *Fork, error) {
		sv := a[1].(StringV)
		if err := ex.builderAppend(s, a[0].(Ptr), sv.B); err != nil {
			return nil, nil, err
		}
		return TupleV{ex.Ctx.BV(64, uint64(len(sv.B))), IfaceV{}}, nil, nil
	}
	m["(*strings.Builder).WriteByte"] = func(ex *Exec, s *State, cc *ssa.CallCommon, a []Value) (Value, *Fork, error) {
		if err := ex.builderAppend(s, a[0].(Ptr), []*Term{a[1].(*Term)}); err != nil {
			return nil, nil, err
		}
		return IfaceV{}, nil, nil
	}
	m["(*strings.Builder).WriteRune"] = func(ex *Exec, s *State, cc *ssa.CallCommon, a []Value) (Value, *Fork, error) {
		r := a[1].(*Term)
		if !r.IsConst() || r.U >= 0x80 {
			if res := ex.checkSat(s, ex.Ctx.Cmp(OUle, ex.Ctx.BV(32, 0x80), r)); res != Unsat {
				return nil, nil, unsupported("Builder.WriteRune of possibly non-ASCII rune")
			}
		}
		if err := ex.builderAppend(s, a[0].(Ptr), []*Term{ex.Ctx.Extract(r, 7, 0)}); err != nil {
			return nil, nil, err
		}
		return TupleV{ex.Ctx.BV(64, 1), IfaceV{}}, nil, nil
	}
	m["(*strings.Builder).Write"] = func(ex *Exec, s *State, cc *ssa.CallCommon, a []Value) (Value, *Fork, error) {
		bs, err := ex.sliceBytes(s, a[1].(SliceV))
		if err != nil {
			return nil, nil, err
		}
		if err := ex.builderAppend(s, a[0].(Ptr), bs); err != nil {
			return nil, nil, err
		}
		return TupleV{ex.Ctx.BV(64, uint64(len(bs))), IfaceV{}}, nil, nil
	}
	m["(*strings.Builder).String"] = func(ex *Exec, s *State, cc *ssa.CallCommon, a []Value) (Value, *Fork, error) {
		bs, err := ex.builderBytes(s, a[0].(Ptr))
		if err != nil {
			return nil, nil, err
		}
		return StringV{B: bs}, nil, nil
	}
	m["(*strings.Builder).Len"] = func(ex *Exec, s *State, cc *ssa.CallCommon, a []Value) (Value, *Fork, error) {
		bs, err := ex.builderBytes(s, a[0].(Ptr))
		if err != nil {
			return nil, nil, err
		}
		return ex.Ctx.BV(64, uint64(len(bs))), nil, nil
	}
	m["(*strings.Builder).Reset"] = func(ex *Exec, s *State, cc *ssa.CallCommon, a []Value) (Value, *Fork, error) {
		p := a[0].(Ptr)
		return nil, nil, ex.store(s, Ptr{Obj: p.Obj, Path: appendPath(p.Path, PE{I: 1})}, SliceV{})
	}
	m["strconv.Itoa"] = func(ex *Exec, s *State, cc *ssa.CallCommon, a []Value) (Value, *Fork, error) {
		t := a[0].(*Term)
		if t.IsConst() {
			return ex.strConst(strconv.FormatInt(t.SInt64(), 10)), nil, nil
		}
		return nil, nil, unsupported("strconv.Itoa of symbolic value")
	}
	registerHashModels(ex)
	registerBigModels(ex)
	registerSignedBigModels(ex)
	registerEdwardsModels(ex)
	registerBctModels(ex)
	registerSeqModels(ex)
	registerMiscModels(ex)
}

func modelZero(ex *Exec, t types.Type) (Value, bool) {
	if v, ok := ex.edwardsZero(t); ok {
		return v, true
	}
	switch namedPath(t) {
	case "math/big.Int":
		return ex.bigZero(), true
	}
	return nil, false
}

// ---------------------------------------------------------------- symbols

func (ex *Exec) symName(s *State, nameV Value) (string, error) {
	sv, ok := nameV.(StringV)
	if !ok {
		return "", unsupported("symbol name must be a constant string")
	}
	base, ok := sv.Concrete()
	if !ok {
		return "", unsupported("symbol name must be a constant string")
	}
	k := s.SymCount[base]
	s.SymCount[base] = k + 1
	return fmt.Sprintf("%s#%d", base, k), nil
}

func (ex *Exec) freshScalar(s *State, nameV Value, kind string, w int) (Value, *Fork, error) {
	name, err := ex.symName(s, nameV)
	if err != nil {
		return nil, nil, err
	}
	t := ex.Ctx.Var(name, SBV(w))
	s.Syms = append(s.Syms, SymRec{Name: name, Kind: kind, Terms: []*Term{t}})
	return t, nil, nil
}

func (ex *Exec) freshBytes(s *State, nameV, nV Value) ([]*Term, error) {
	name, err := ex.symName(s, nameV)
	if err != nil {
		return nil, err
	}
	nt := nV.(*Term)
	if !nt.IsConst() {
		return nil, unsupported("verifBytes with symbolic length")
	}
	n := int(nt.U)
	bs := make([]*Term, n)
	for i := range bs {
		bs[i] = ex.Ctx.Var(fmt.Sprintf("%s!%d", name, i), SBV(8))
	}
	s.Syms = append(s.Syms, SymRec{Name: name, Kind: "bytes", Terms: bs})
	return bs, nil
}

func (ex *Exec) assert(s *State, id string, cond *Term) {
	st := ex.Asserts[id]
	if st == nil {
		st = &AssertStat{ID: id}
		ex.Asserts[id] = st
	}
	st.Checked++
	if cond.IsTrue() {
		st.Folded++
		return
	}
	neg := ex.Ctx.BNot(cond)
	if os.Getenv("SYMGO_DEBUG") == "2" {
		str := cond.String()
		if len(str) > 1500 {
			str = str[:1500]
		}
		fmt.Fprintf(os.Stderr, "assert %s: %s\n", id, str)
	}
	q0 := ex.Solver.TimeSpent
	var r Result
	if len(ex.opaqueInst) > 1 {
		// memoised opaque functions: a counterexample candidate must respect functional consistency
		// (congruence axioms are added lazily, see refineOpaque)
		s.PC = appendMissing(s.PC, ex.opaqueAx)
		r = ex.checkSat(s, neg)
		for round := 0; r == Sat && round < 40; round++ {
			ax, rr := ex.refineOpaque(append(append([]*Term{}, s.PC...), neg))
			if rr != Sat {
				r = rr
				break
			}
			if len(ax) == 0 {
				break
			}
			ex.opaqueAx = append(ex.opaqueAx, ax...)
			s.PC = append(s.PC, ax...)
			r = ex.checkSat(s, neg)
			if round == 39 && r == Sat {
				r = Unknown
			}
		}
	} else if qm := ex.quickCounterexample(s.PC, cond, 8); qm != nil {
		// found by concrete evaluation; reported only after native replay like any other
		ex.quickModel = qm
		r = Sat
		st.QuickHits++
	} else {
		r = ex.checkSat(s, neg)
	}
	ms := (ex.Solver.TimeSpent - q0).Milliseconds()
	st.TotalMs += ms
	if ms > st.MaxMs {
		st.MaxMs = ms
	}
	switch r {
	case Unsat:
		st.Solver++
	case Sat:
		st.Sat++
		if st.Sat <= 2 && len(ex.Violations) < 12 {
			fs := ex.clone(s)
			fs.PC = append(fs.PC, neg)
			ex.recordViolation(fs, id, "assertion "+id+" violated")
		} else {
			ex.quickModel = nil // further counterexamples of the same obligation are only counted
		}
		// continue the path under the assertion to find independent violations
		s.PC = append(s.PC, cond)
		s.Unchecked++
	case Unknown:
		st.Unknown++
		ex.Errors = append(ex.Errors, fmt.Sprintf("UNKNOWN solver result for assertion %s (%s)", id, ex.Solver.LastErr))
		s.PC = append(s.PC, cond)
	}
}

// ---------------------------------------------------------------- strings helpers

func (ex *Exec) requireASCII(s *State, bs []*Term, what string) error {
	c := ex.Ctx
	var bad []*Term
	for _, b := range bs {
		if b.IsConst() {
			if b.U >= 0x80 {
				return unsupported("%s on non-ASCII constant", what)
			}
			continue
		}
		bad = append(bad, c.Cmp(OUle, c.BV(8, 0x80), b))
	}
	if len(bad) == 0 {
		return nil
	}
	if r := ex.checkSat(s, c.BOr(bad...)); r != Unsat {
		return unsupported("%s on possibly non-ASCII symbolic string (outside the modelled fragment)", what)
	}
	return nil
}

func (ex *Exec) asciiCase(s *State, sv StringV, lo, hi byte, delta uint64) (Value, *Fork, error) {
	if err := ex.requireASCII(s, sv.B, "strings.ToLower/ToUpper"); err != nil {
		return nil, nil, err
	}
	c := ex.Ctx
	out := make([]*Term, len(sv.B))
	for i, b := range sv.B {
		in := c.BAnd(c.Cmp(OUle, c.BV(8, uint64(lo)), b), c.Cmp(OUle, b, c.BV(8, uint64(hi))))
		out[i] = c.Ite(in, c.Add(b, c.BV(8, delta)), b)
	}
	return StringV{B: out}, nil, nil
}

// strings.Builder is {addr *Builder; buf []byte}; we only use buf (field 1).
func (ex *Exec) builderBytes(s *State, p Ptr) ([]*Term, error) {
	v, err := ex.load(s, Ptr{Obj: p.Obj, Path: appendPath(p.Path, PE{I: 1})})
	if err != nil {
		return nil, err
	}
	return ex.sliceBytes(s, v.(SliceV))
}

func (ex *Exec) builderAppend(s *State, p Ptr, add []*Term) error {
	fp := Ptr{Obj: p.Obj, Path: appendPath(p.Path, PE{I: 1})}
	v, err := ex.load(s, fp)
	if err != nil {
		return err
	}
	vals := make([]Value, len(add))
	for i, a := range add {
		vals[i] = a
	}
	nv, err := ex.appendElems(s, v.(SliceV), vals, types.Typ[types.Uint8])
	if err != nil {
		return err
	}
	return ex.store(s, fp, nv)
}

// ---------------------------------------------------------------- fmt / errors

func (ex *Exec) lookupType(pkgPath, name string) types.Type {
	for _, p := range ex.Prog.AllPackages() {
		if p.Pkg.Path() == pkgPath {
			if o := p.Pkg.Scope().Lookup(name); o != nil {
				return o.Type()
			}
		}
	}
	return nil
}

func variadicArgs(ex *Exec, s *State, v Value) ([]Value, error) {
	sl, ok := v.(SliceV)
	if !ok {
		return nil, unsupported("variadic argument %T", v)
	}
	return ex.sliceElems(s, sl)
}

// fmt.Errorf: builds a real *fmt.wrapError{msg, err} (or *errors.errorString) so that
// the real Unwrap/Error methods run; the message is the unformatted format string.
func modelErrorf(ex *Exec, s *State, cc *ssa.CallCommon, a []Value) (Value, *Fork, error) {
	fs, ok := a[0].(StringV)
	format, ok2 := fs.Concrete()
	if !ok || !ok2 {
		return nil, nil, unsupported("fmt.Errorf with symbolic format")
	}
	args, err := variadicArgs(ex, s, a[1])
	if err != nil {
		return nil, nil, err
	}
	// locate %w
	argIdx, wIdx, nW := 0, -1, 0
	for i := 0; i < len(format); i++ {
		if format[i] != '%' {
			continue
		}
		i++
		for i < len(format) && strings.ContainsRune("+-# 0123456789.", rune(format[i])) {
			i++
		}
		if i >= len(format) {
			break
		}
		if format[i] == '%' {
			continue
		}
		if format[i] == 'w' {
			wIdx = argIdx
			nW++
		}
		argIdx++
	}
	if nW > 1 {
		return nil, nil, unsupported("fmt.Errorf with several %%w")
	}
	if nW == 1 && wIdx < len(args) {
		if iv, ok := args[wIdx].(IfaceV); ok && iv.T != nil {
			wt := ex.lookupType("fmt", "wrapError")
			if wt == nil {
				return nil, nil, unsupported("fmt.wrapError type not loaded")
			}
			obj := &StructV{F: []Value{ex.strConst(format), iv}}
			id := ex.newObject(s, obj, wt)
			return IfaceV{T: types.NewPointer(wt), V: Ptr{Obj: id}}, nil, nil
		}
	}
	et := ex.lookupType("errors", "errorString")
	if et == nil {
		return nil, nil, unsupported("errors.errorString type not loaded")
	}
	id := ex.newObject(s, &StructV{F: []Value{ex.strConst(format)}}, et)
	return IfaceV{T: types.NewPointer(et), V: Ptr{Obj: id}}, nil, nil
}

// fmt.Sprintf: supports %d (constant or symbolic unsigned < 2^32 via digit-count fork), %s, %v on strings, %%.
func modelSprintf(ex *Exec, s *State, cc *ssa.CallCommon, a []Value) (Value, *Fork, error) {
	fs, ok := a[0].(StringV)
	format, ok2 := fs.Concrete()
	if !ok || !ok2 {
		return nil, nil, unsupported("fmt.Sprintf with symbolic format")
	}
	args, err := variadicArgs(ex, s, a[1])
	if err != nil {
		return nil, nil, err
	}
	c := ex.Ctx
	type piece struct {
		bs  []*Term
		sym *Term // symbolic decimal
	}
	var pieces []piece
	ai := 0
	lit := []*Term{}
	for i := 0; i < len(format); i++ {
		if format[i] != '%' {
			lit = append(lit, c.BV(8, uint64(format[i])))
			continue
		}
		i++
		if i >= len(format) {
			break
		}
		if format[i] == '%' {
			lit = append(lit, c.BV(8, '%'))
			continue
		}
		if ai >= len(args) {
			return nil, nil, unsupported("fmt.Sprintf: missing argument")
		}
		iv, _ := args[ai].(IfaceV)
		ai++
		switch format[i] {
		case 'd':
			t, ok := iv.V.(*Term)
			if !ok {
				return nil, nil, unsupported("fmt.Sprintf %%d of %T", iv.V)
			}
			if t.IsConst() {
				var str string
				if isSigned(iv.T) {
					str = strconv.FormatInt(t.SInt64(), 10)
				} else {
					str = strconv.FormatUint(t.U, 10)
				}
				for k := 0; k < len(str); k++ {
					lit = append(lit, c.BV(8, uint64(str[k])))
				}
				continue
			}
			if isSigned(iv.T) {
				return nil, nil, unsupported("fmt.Sprintf %%d of symbolic signed value")
			}
			pieces = append(pieces, piece{bs: lit})
			lit = nil
			pieces = append(pieces, piece{sym: t})
		case 's', 'v':
			switch x := iv.V.(type) {
			case StringV:
				lit = append(lit, x.B...)
			default:
				// opaque rendering (only used in messages)
				for _, ch := range []byte("<?>") {
					lit = append(lit, c.BV(8, uint64(ch)))
				}
			}
		default:
			for _, ch := range []byte("<?>") {
				lit = append(lit, c.BV(8, uint64(ch)))
			}
		}
	}
	pieces = append(pieces, piece{bs: lit})
	nsym := 0
	var symT *Term
	for _, p := range pieces {
		if p.sym != nil {
			nsym++
			symT = p.sym
		}
	}
	if nsym == 0 {
		return StringV{B: pieces[0].bs}, nil, nil
	}
	if nsym > 1 {
		return nil, nil, unsupported("fmt.Sprintf with several symbolic %%d")
	}
	// fork on the number of decimal digits of symT (unsigned)
	w := symT.S.W
	maxDigits := len(new(bigIntT).Lsh(bigOne, uint(w)).String())
	f := &Fork{}
	pow := new(bigIntT).Set(bigOne) // 10^(k-1)
	for k := 1; k <= maxDigits; k++ {
		lo := new(bigIntT).Set(pow)
		if k == 1 {
			lo.SetInt64(0)
		}
		hi := new(bigIntT).Mul(pow, bigTen) // exclusive
		limit := new(bigIntT).Lsh(bigOne, uint(w))
		if lo.Cmp(limit) >= 0 {
			break
		}
		cond := c.Cmp(OUle, c.BVBig(w, lo), symT)
		if hi.Cmp(limit) < 0 {
			cond = c.BAnd(cond, c.Cmp(OUlt, symT, c.BVBig(w, hi)))
		}
		// digits most significant first: fresh digit variables tied to the value by the
		// (existence and uniqueness of the) decimal representation  x = sum d_j * 10^j, d_j <= 9
		digits := make([]*Term, k)
		ex.sprintfCount++
		sum := c.BV(64, 0)
		for d := 0; d < k; d++ {
			dv := c.Var(fmt.Sprintf("dec!%d!%d!%d", ex.sprintfCount, k, d), SBV(8))
			cond = c.BAnd(cond, c.Cmp(OUle, dv, c.BV(8, 9)))
			digits[d] = c.Add(dv, c.BV(8, '0'))
			sum = c.Add(c.Mul(sum, c.BV(64, 10)), c.ZExt(dv, 64))
			// redundant lemma (follows from the representation): every decimal prefix is <= the value
			cond = c.BAnd(cond, c.Cmp(OUle, sum, c.ZExt(symT, 64)))
		}
		cond = c.BAnd(cond, c.Eq(c.ZExt(symT, 64), sum))
		var out []*Term
		for _, p := range pieces {
			if p.sym != nil {
				out = append(out, digits...)
			} else {
				out = append(out, p.bs...)
			}
		}
		f.Alts = append(f.Alts, Alt{Cond: cond, Ret: StringV{B: out}})
		pow.Mul(pow, bigTen)
	}
	return nil, f, nil
}

// verifAsAssign(err error, target any) bool: one level of errors.As.
func modelAsAssign(ex *Exec, s *State, cc *ssa.CallCommon, a []Value) (Value, *Fork, error) {
	ev, _ := a[0].(IfaceV)
	tv, _ := a[1].(IfaceV)
	if tv.T == nil {
		return nil, nil, &goPanic{"errors.As: target cannot be nil"}
	}
	pt, ok := tv.T.Underlying().(*types.Pointer)
	if !ok {
		return nil, nil, &goPanic{"errors.As: target must be a non-nil pointer"}
	}
	if ev.T == nil {
		return ex.Ctx.False(), nil, nil
	}
	et := pt.Elem()
	if types.IsInterface(et) {
		if types.Implements(ev.T, et.Underlying().(*types.Interface)) {
			return ex.Ctx.True(), nil, ex.store(s, tv.V.(Ptr), ev)
		}
		return ex.Ctx.False(), nil, nil
	}
	if types.Identical(ev.T, et) {
		return ex.Ctx.True(), nil, ex.store(s, tv.V.(Ptr), ev.V)
	}
	return ex.Ctx.False(), nil, nil
}

func appendMissing(pc []*Term, ax []*Term) []*Term {
	if len(ax) == 0 {
		return pc
	}
	have := map[*Term]bool{}
	for _, t := range pc {
		have[t] = true
	}
	for _, a := range ax {
		if !have[a] {
			pc = append(pc, a)
		}
	}
	return pc
}
