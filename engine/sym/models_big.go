package sym

import "math/big"

type bigIntT = big.Int

var bigOne = big.NewInt(1)
var bigTen = big.NewInt(10)

func registerBigModels(ex *Exec) {}

func (ex *Exec) bigZero() Value { return Poison{"big.Int model not built"} }
