package sym

import (
	"fmt"
	"go/types"
	"math/big"

	"golang.org/x/tools/go/ssa"
)

type bigIntT = big.Int

var bigOne = big.NewInt(1)
var bigTen = big.NewInt(10)

// math/big.Int model. Two interchangeable encodings, chosen per harness:
//
//	bv  : non-negative values in a fixed-width bit-vector (width W); every operation carries a
//	      statically tracked bound on the bit length (MaxBits) and the run stops (UNSUPPORTED)
//	      if a result could exceed W or become negative -- the finite width is checked, not assumed
//	int : SMT integers (unbounded, signed)
type BigV struct {
	T       *Term
	MaxBits int      // bv mode: upper bound on the bit length of the value
	Max     *big.Int // bv mode: upper bound on the value (nil: 2^MaxBits - 1)
	Min     *big.Int // sbv mode: lower bound (nil: 0)
}

func (b *BigV) max() *big.Int {
	if b.Max != nil {
		return b.Max
	}
	return new(big.Int).Sub(pow2(b.MaxBits), bigOne)
}

func bigWithMax(t *Term, m *big.Int) *BigV {
	return &BigV{T: t, MaxBits: m.BitLen(), Max: m}
}

func (b *BigV) Copy() Value { n := *b; return &n }
func (b *BigV) Identical(o Value) bool {
	x, ok := o.(*BigV)
	return ok && x.T == b.T
}
func (b *BigV) Merge(c *Ctx, g *Term, other Value) (Value, bool) {
	x, ok := other.(*BigV)
	if !ok || x.T.S != b.T.S {
		return nil, false
	}
	m := b.max()
	if x.max().Cmp(m) > 0 {
		m = x.max()
	}
	if b.T.S.K == KInt {
		return &BigV{T: c.Ite(g, b.T, x.T)}, true
	}
	r := bigWithMax(c.Ite(g, b.T, x.T), m)
	if b.Min != nil || x.Min != nil {
		lo := b.min()
		if x.min().Cmp(lo) < 0 {
			lo = x.min()
		}
		r.Min = lo
	}
	return r, true
}

func (ex *Exec) bigIsInt() bool { return ex.BigMode == "int" }

func (ex *Exec) bigConst(v *big.Int) *BigV {
	if ex.bigIsInt() {
		return &BigV{T: ex.Ctx.Int(v)}
	}
	w := ex.bigW()
	if ex.bigIsSigned() && v.BitLen() < w-1 {
		return &BigV{T: ex.Ctx.BVBig(w, v), Min: new(big.Int).Set(v), Max: new(big.Int).Set(v), MaxBits: v.BitLen()}
	}
	if v.Sign() < 0 || v.BitLen() > w {
		return &BigV{T: ex.Ctx.BVBig(w, v), MaxBits: 1 << 30}
	}
	return bigWithMax(ex.Ctx.BVBig(w, v), new(big.Int).Set(v))
}

func (ex *Exec) bigW() int {
	if ex.BigWidth > 0 {
		return ex.BigWidth
	}
	return 600
}

func (ex *Exec) bigZero() Value { return ex.bigConst(new(big.Int)) }

func (ex *Exec) bigGet(s *State, v Value) (*BigV, error) {
	p, ok := v.(Ptr)
	if !ok || p.Obj == 0 {
		return nil, &goPanic{"nil *big.Int"}
	}
	lv, err := ex.load(s, p)
	if err != nil {
		return nil, err
	}
	b, ok := lv.(*BigV)
	if !ok {
		return nil, unsupported("big.Int object holds %T", lv)
	}
	if !ex.bigIsInt() && b.MaxBits > ex.bigW() {
		return nil, unsupported("big.Int (bit-vector model): value may exceed %d bits or be negative", ex.bigW())
	}
	return b, nil
}

func (ex *Exec) bigSet(s *State, recv Value, b *BigV) (Value, *Fork, error) {
	if !ex.bigIsInt() && b.MaxBits > ex.bigW() {
		return nil, nil, unsupported("big.Int (bit-vector model): result may exceed %d bits or be negative", ex.bigW())
	}
	p := recv.(Ptr)
	if p.Obj == 0 {
		return nil, nil, &goPanic{"nil *big.Int receiver"}
	}
	if err := ex.store(s, p, b); err != nil {
		return nil, nil, err
	}
	return recv, nil, nil
}

func (ex *Exec) newBig(s *State, b *BigV) Value {
	t := ex.lookupType("math/big", "Int")
	id := ex.newObject(s, b, t)
	return Ptr{Obj: id}
}

func constShift(v Value) (int, error) {
	t := v.(*Term)
	if !t.IsConst() {
		return 0, unsupported("big.Int shift by a symbolic amount")
	}
	return int(t.U), nil
}

func pow2(k int) *big.Int { return new(big.Int).Lsh(bigOne, uint(k)) }

func registerBigModels(ex *Exec) {
	m := ex.Models
	type binFn func(ex *Exec, x, y *BigV) (*BigV, error)
	bin := func(f binFn) ModelFn {
		return func(ex *Exec, s *State, cc *ssa.CallCommon, a []Value) (Value, *Fork, error) {
			x, err := ex.bigGet(s, a[1])
			if err != nil {
				return nil, nil, err
			}
			y, err := ex.bigGet(s, a[2])
			if err != nil {
				return nil, nil, err
			}
			r, err := f(ex, x, y)
			if err != nil {
				return nil, nil, err
			}
			return ex.bigSet(s, a[0], r)
		}
	}
	m["math/big.NewInt"] = func(ex *Exec, s *State, cc *ssa.CallCommon, a []Value) (Value, *Fork, error) {
		t := a[0].(*Term)
		if t.IsConst() {
			return ex.newBig(s, ex.bigConst(big.NewInt(t.SInt64()))), nil, nil
		}
		if ex.bigIsInt() {
			// signed 64-bit to Int
			c := ex.Ctx
			neg := c.Cmp(OSlt, t, c.BV(64, 0))
			v := c.Ite(neg, c.IntOp(OISub, c.BV2Int(t), c.Int(pow2(64))), c.BV2Int(t))
			return ex.newBig(s, &BigV{T: v}), nil, nil
		}
		r := ex.Ctx.rangeOf(t)
		if r.lo < 0 {
			// must be provably non-negative
			if ex.checkSat(s, ex.Ctx.Cmp(OSlt, t, ex.Ctx.BV(64, 0))) != Unsat {
				return nil, nil, unsupported("big.NewInt of possibly negative value (bit-vector model)")
			}
		}
		mx := new(big.Int).Sub(pow2(63), bigOne)
		if r.lo >= 0 {
			mx = big.NewInt(r.hi)
		}
		if w := ex.bigW(); w < 64 {
			if mx.BitLen() >= w {
				return nil, nil, unsupported("big.NewInt: value may not fit the %d-bit model", w)
			}
			return ex.newBig(s, bigWithMax(ex.Ctx.Extract(t, w-1, 0), mx)), nil, nil
		}
		return ex.newBig(s, bigWithMax(ex.Ctx.ZExt(t, ex.bigW()), mx)), nil, nil
	}
	m["(*math/big.Int).SetUint64"] = func(ex *Exec, s *State, cc *ssa.CallCommon, a []Value) (Value, *Fork, error) {
		t := a[1].(*Term)
		if ex.bigIsInt() {
			return ex.bigSet(s, a[0], &BigV{T: ex.bvToIntChecked(s, t)})
		}
		mx := new(big.Int).Sub(pow2(64), bigOne)
		if r := ex.Ctx.rangeOf(t); r.lo >= 0 {
			mx = big.NewInt(r.hi)
		}
		return ex.bigSet(s, a[0], bigWithMax(ex.Ctx.ZExt(t, ex.bigW()), mx))
	}
	m["(*math/big.Int).SetInt64"] = func(ex *Exec, s *State, cc *ssa.CallCommon, a []Value) (Value, *Fork, error) {
		t := a[1].(*Term)
		if t.IsConst() {
			return ex.bigSet(s, a[0], ex.bigConst(big.NewInt(t.SInt64())))
		}
		return nil, nil, unsupported("big.Int.SetInt64 of symbolic value")
	}
	m["(*math/big.Int).Set"] = func(ex *Exec, s *State, cc *ssa.CallCommon, a []Value) (Value, *Fork, error) {
		x, err := ex.bigGet(s, a[1])
		if err != nil {
			return nil, nil, err
		}
		return ex.bigSet(s, a[0], x)
	}
	m["(*math/big.Int).SetBytes"] = func(ex *Exec, s *State, cc *ssa.CallCommon, a []Value) (Value, *Fork, error) {
		bs, err := ex.sliceBytes(s, a[1].(SliceV))
		if err != nil {
			return nil, nil, err
		}
		c := ex.Ctx
		if ex.bigIsInt() {
			acc := c.IntI(0)
			for _, b := range bs {
				acc = c.IntOp(OIAdd, c.IntOp(OIMul, acc, c.IntI(256)), c.BV2Int(b))
			}
			return ex.bigSet(s, a[0], &BigV{T: acc})
		}
		if 8*len(bs) > ex.bigW() {
			return nil, nil, unsupported("big.Int.SetBytes: %d bytes exceed the model width", len(bs))
		}
		if len(bs) == 0 {
			return ex.bigSet(s, a[0], ex.bigConst(new(big.Int)))
		}
		return ex.bigSet(s, a[0], &BigV{T: c.ZExt(c.Concat(bs...), ex.bigW()), MaxBits: 8 * len(bs)})
	}
	m["(*math/big.Int).SetString"] = func(ex *Exec, s *State, cc *ssa.CallCommon, a []Value) (Value, *Fork, error) {
		sv, ok := a[1].(StringV)
		str, ok2 := sv.Concrete()
		bt := a[2].(*Term)
		if !ok || !ok2 || !bt.IsConst() {
			return nil, nil, unsupported("big.Int.SetString of symbolic string")
		}
		v, good := new(big.Int).SetString(str, int(bt.U))
		if !good {
			return TupleV{Ptr{}, ex.Ctx.False()}, nil, nil
		}
		r, _, err := ex.bigSet(s, a[0], ex.bigConst(v))
		return TupleV{r, ex.Ctx.True()}, nil, err
	}
	m["(*math/big.Int).Lsh"] = func(ex *Exec, s *State, cc *ssa.CallCommon, a []Value) (Value, *Fork, error) {
		x, err := ex.bigGet(s, a[1])
		if err != nil {
			return nil, nil, err
		}
		k, err := constShift(a[2])
		if err != nil {
			return nil, nil, err
		}
		c := ex.Ctx
		if ex.bigIsInt() {
			return ex.bigSet(s, a[0], &BigV{T: c.IntOp(OIMul, x.T, c.Int(pow2(k)))})
		}
		return ex.bigSet(s, a[0], bigWithMax(c.BVOp(OShl, x.T, c.BV(ex.bigW(), uint64(k))), new(big.Int).Lsh(x.max(), uint(k))))
	}
	m["(*math/big.Int).Rsh"] = func(ex *Exec, s *State, cc *ssa.CallCommon, a []Value) (Value, *Fork, error) {
		x, err := ex.bigGet(s, a[1])
		if err != nil {
			return nil, nil, err
		}
		k, err := constShift(a[2])
		if err != nil {
			return nil, nil, err
		}
		c := ex.Ctx
		if ex.bigIsInt() {
			return ex.bigSet(s, a[0], &BigV{T: c.IntOp(OIDiv, x.T, c.Int(pow2(k)))})
		}
		return ex.bigSet(s, a[0], bigWithMax(c.BVOp(OLShr, x.T, c.BV(ex.bigW(), uint64(k))), new(big.Int).Rsh(x.max(), uint(k))))
	}
	m["(*math/big.Int).Or"] = bin(func(ex *Exec, x, y *BigV) (*BigV, error) {
		if ex.bigIsInt() {
			return nil, unsupported("big.Int.Or in the integer model")
		}
		mb := x.MaxBits
		if y.MaxBits > mb {
			mb = y.MaxBits
		}
		return bigWithMax(ex.Ctx.Or(x.T, y.T), new(big.Int).Sub(pow2(mb), bigOne)), nil
	})
	m["(*math/big.Int).And"] = bin(func(ex *Exec, x, y *BigV) (*BigV, error) {
		if ex.bigIsInt() {
			// x & (2^k - 1) = x mod 2^k for non-negative x
			if y.T.IsConst() {
				k := y.T.Big.BitLen()
				if new(big.Int).Sub(pow2(k), bigOne).Cmp(y.T.Big) == 0 {
					return &BigV{T: ex.Ctx.IntOp(OIMod, x.T, ex.Ctx.Int(pow2(k)))}, nil
				}
			}
			return nil, unsupported("big.Int.And in the integer model")
		}
		m := x.max()
		if y.max().Cmp(m) < 0 {
			m = y.max()
		}
		return bigWithMax(ex.Ctx.And(x.T, y.T), m), nil
	})
	m["(*math/big.Int).Add"] = bin(func(ex *Exec, x, y *BigV) (*BigV, error) {
		if ex.bigIsInt() {
			return &BigV{T: ex.Ctx.IntOp(OIAdd, x.T, y.T)}, nil
		}
		return bigWithMax(ex.Ctx.Add(x.T, y.T), new(big.Int).Add(x.max(), y.max())), nil
	})
	var subGeneric ModelFn
	m["(*math/big.Int).Sub"] = func(ex *Exec, s *State, cc *ssa.CallCommon, a []Value) (Value, *Fork, error) {
		// unsigned bit-vector model: x - y is representable when the solver shows x >= y on this path
		if !ex.bigIsInt() && ex.BigMode != "sbv" {
			x, err := ex.bigGet(s, a[1])
			if err != nil {
				return nil, nil, err
			}
			y, err := ex.bigGet(s, a[2])
			if err != nil {
				return nil, nil, err
			}
			if !(x.T.IsConst() && y.T.IsConst()) {
				if ex.checkSat(s, ex.Ctx.Cmp(OUlt, x.T, y.T)) == Unsat {
					return ex.bigSet(s, a[0], bigWithMax(ex.Ctx.BVOp(OSub, x.T, y.T), x.max()))
				}
				return nil, nil, unsupported("big.Int.Sub of symbolic values in the bit-vector model (a negative difference is possible)")
			}
		}
		return subGeneric(ex, s, cc, a)
	}
	subGeneric = bin(func(ex *Exec, x, y *BigV) (*BigV, error) {
		if ex.bigIsInt() {
			return &BigV{T: ex.Ctx.IntOp(OISub, x.T, y.T)}, nil
		}
		if x.T.IsConst() && y.T.IsConst() {
			return ex.bigConst(new(big.Int).Sub(x.T.BigVal(), y.T.BigVal())), nil
		}
		return nil, unsupported("big.Int.Sub of symbolic values in the bit-vector model (sign unknown)")
	})
	m["(*math/big.Int).Mul"] = bin(func(ex *Exec, x, y *BigV) (*BigV, error) {
		if ex.bigIsInt() {
			return &BigV{T: ex.Ctx.IntOp(OIMul, x.T, y.T)}, nil
		}
		return bigWithMax(ex.Ctx.Mul(x.T, y.T), new(big.Int).Mul(x.max(), y.max())), nil
	})
	quo := func(op Op, iop Op) ModelFn {
		return func(ex *Exec, s *State, cc *ssa.CallCommon, a []Value) (Value, *Fork, error) {
			x, err := ex.bigGet(s, a[1])
			if err != nil {
				return nil, nil, err
			}
			y, err := ex.bigGet(s, a[2])
			if err != nil {
				return nil, nil, err
			}
			c := ex.Ctx
			var zero *Term
			if ex.bigIsInt() {
				zero = c.Eq(y.T, c.IntI(0))
			} else {
				zero = c.Eq(y.T, c.BV(ex.bigW(), 0))
			}
			if !zero.IsFalse() && ex.checkSat(s, zero) != Unsat {
				return nil, nil, &goPanic{"division by zero (big.Int)"}
			}
			if ex.bigIsInt() {
				// Quo truncates, Div/Mod are Euclidean; for non-negative operands they agree.
				nonneg := c.BAnd(c.IntOp(OILe, c.IntI(0), x.T), c.IntOp(OILe, c.IntI(0), y.T))
				if !nonneg.IsTrue() && ex.checkSat(s, c.BNot(nonneg)) != Unsat {
					return nil, nil, unsupported("big.Int division with possibly negative operands")
				}
				return ex.bigSet(s, a[0], &BigV{T: c.IntOp(iop, x.T, y.T)})
			}
			m := x.max()
			if op == OURem && y.max().Cmp(m) < 0 {
				m = y.max()
			}
			if op == OURem && y.T.IsConst() {
				// x mod N by conditional subtraction when x is known to be below a small multiple of N
				nv := y.T.BigVal()
				for k := int64(1); k <= 4; k++ {
					if x.max().Cmp(new(big.Int).Mul(nv, big.NewInt(k))) < 0 {
						r := x.T
						for j := k - 1; j >= 1; j-- {
							lim := c.BVBig(ex.bigW(), new(big.Int).Mul(nv, big.NewInt(j)))
							_ = lim
						}
						// subtract N up to k-1 times
						for j := int64(1); j < k; j++ {
							ge := c.Cmp(OUle, y.T, r)
							r = c.Ite(ge, c.Sub(r, y.T), r)
						}
						return ex.bigSet(s, a[0], bigWithMax(r, new(big.Int).Sub(nv, bigOne)))
					}
				}
			}
			return ex.bigSet(s, a[0], bigWithMax(c.BVOp(op, x.T, y.T), m))
		}
	}
	m["(*math/big.Int).Quo"] = quo(OUDiv, OIDiv)
	m["(*math/big.Int).Div"] = quo(OUDiv, OIDiv)
	m["(*math/big.Int).Mod"] = quo(OURem, OIMod)
	m["(*math/big.Int).Rem"] = quo(OURem, OIMod)
	m["(*math/big.Int).Cmp"] = func(ex *Exec, s *State, cc *ssa.CallCommon, a []Value) (Value, *Fork, error) {
		x, err := ex.bigGet(s, a[0])
		if err != nil {
			return nil, nil, err
		}
		y, err := ex.bigGet(s, a[1])
		if err != nil {
			return nil, nil, err
		}
		c := ex.Ctx
		var lt *Term
		if ex.bigIsInt() {
			lt = c.IntOp(OILt, x.T, y.T)
		} else {
			lt = c.Cmp(OUlt, x.T, y.T)
		}
		eq := c.Eq(x.T, y.T)
		return c.Ite(lt, c.BV(64, ^uint64(0)), c.Ite(eq, c.BV(64, 0), c.BV(64, 1))), nil, nil
	}
	m["(*math/big.Int).Sign"] = func(ex *Exec, s *State, cc *ssa.CallCommon, a []Value) (Value, *Fork, error) {
		x, err := ex.bigGet(s, a[0])
		if err != nil {
			return nil, nil, err
		}
		c := ex.Ctx
		if ex.bigIsInt() {
			return c.Ite(c.IntOp(OILt, x.T, c.IntI(0)), c.BV(64, ^uint64(0)), c.Ite(c.Eq(x.T, c.IntI(0)), c.BV(64, 0), c.BV(64, 1))), nil, nil
		}
		return c.Ite(c.Eq(x.T, c.BV(ex.bigW(), 0)), c.BV(64, 0), c.BV(64, 1)), nil, nil
	}
	m["(*math/big.Int).Int64"] = func(ex *Exec, s *State, cc *ssa.CallCommon, a []Value) (Value, *Fork, error) {
		x, err := ex.bigGet(s, a[0])
		if err != nil {
			return nil, nil, err
		}
		if ex.bigIsInt() {
			return ex.Ctx.Int2BV(x.T, 64), nil, nil
		}
		return ex.Ctx.Extract(x.T, 63, 0), nil, nil
	}
	m["(*math/big.Int).Uint64"] = m["(*math/big.Int).Int64"]
	m["(*math/big.Int).IsUint64"] = func(ex *Exec, s *State, cc *ssa.CallCommon, a []Value) (Value, *Fork, error) {
		x, err := ex.bigGet(s, a[0])
		if err != nil {
			return nil, nil, err
		}
		c := ex.Ctx
		if ex.bigIsInt() {
			return c.BAnd(c.IntOp(OILe, c.IntI(0), x.T), c.IntOp(OILt, x.T, c.Int(pow2(64)))), nil, nil
		}
		return c.Cmp(OUlt, x.T, c.BVBig(ex.bigW(), pow2(64))), nil, nil
	}
	m["(*math/big.Int).BitLen"] = func(ex *Exec, s *State, cc *ssa.CallCommon, a []Value) (Value, *Fork, error) {
		x, err := ex.bigGet(s, a[0])
		if err != nil {
			return nil, nil, err
		}
		if x.T.IsConst() {
			return ex.Ctx.BV(64, uint64(x.T.BigVal().BitLen())), nil, nil
		}
		return nil, nil, unsupported("big.Int.BitLen of symbolic value")
	}
	m["(*math/big.Int).Bit"] = func(ex *Exec, s *State, cc *ssa.CallCommon, a []Value) (Value, *Fork, error) {
		x, err := ex.bigGet(s, a[0])
		if err != nil {
			return nil, nil, err
		}
		i := a[1].(*Term)
		if ex.bigIsInt() || !i.IsConst() {
			return nil, nil, unsupported("big.Int.Bit (integer model or symbolic index)")
		}
		if int(i.U) >= ex.bigW() {
			return ex.Ctx.BV(64, 0), nil, nil
		}
		return ex.Ctx.ZExt(ex.Ctx.Extract(x.T, int(i.U), int(i.U)), 64), nil, nil
	}
	m["(*math/big.Int).Bytes"] = func(ex *Exec, s *State, cc *ssa.CallCommon, a []Value) (Value, *Fork, error) {
		x, err := ex.bigGet(s, a[0])
		if err != nil {
			return nil, nil, err
		}
		if ex.bigIsInt() {
			return nil, nil, unsupported("big.Int.Bytes in the integer model")
		}
		c := ex.Ctx
		w := ex.bigW()
		maxLen := (x.MaxBits + 7) / 8
		f := &Fork{}
		// one alternative per minimal byte length k
		for k := 0; k <= maxLen; k++ {
			var cond *Term
			if k == 0 {
				cond = c.Eq(x.T, c.BV(w, 0))
			} else {
				cond = c.Cmp(OUle, c.BVBig(w, pow2(8*(k-1))), x.T)
				if 8*k < w {
					cond = c.BAnd(cond, c.Cmp(OUlt, x.T, c.BVBig(w, pow2(8*k))))
				}
			}
			if cond.IsFalse() {
				continue
			}
			bs := make([]*Term, k)
			for i := 0; i < k; i++ {
				hi := 8*(k-i) - 1
				bs[i] = c.Extract(x.T, hi, hi-7)
			}
			f.Alts = append(f.Alts, Alt{Cond: cond, Ret: lazyBytes{bs}, Tag: fmt.Sprintf("Bytes=%d;", k)})
		}
		for i := range f.Alts {
			f.Alts[i].Ret = ex.newByteSlice(s, f.Alts[i].Ret.(lazyBytes).b)
		}
		return nil, f, nil
	}
	m["(*math/big.Int).FillBytes"] = func(ex *Exec, s *State, cc *ssa.CallCommon, a []Value) (Value, *Fork, error) {
		x, err := ex.bigGet(s, a[0])
		if err != nil {
			return nil, nil, err
		}
		if ex.bigIsInt() {
			return nil, nil, unsupported("big.Int.FillBytes in the integer model")
		}
		buf := a[1].(SliceV)
		c := ex.Ctx
		w := ex.bigW()
		if 8*buf.Len < w {
			over := c.Cmp(OUle, c.BVBig(w, pow2(8*buf.Len)), x.T)
			if !over.IsFalse() && ex.checkSat(s, over) != Unsat {
				return nil, nil, &goPanic{"math/big: buffer too small to fit value"}
			}
		}
		for i := 0; i < buf.Len; i++ {
			hi := 8*(buf.Len-i) - 1
			var b *Term
			if hi-7 >= w {
				b = c.BV(8, 0)
			} else if hi >= w {
				b = c.ZExt(c.Extract(x.T, w-1, hi-7), 8)
			} else {
				b = c.Extract(x.T, hi, hi-7)
			}
			if err := ex.store(s, Ptr{Obj: buf.Obj, Path: appendPath(buf.Path, PE{I: buf.Off + i})}, b); err != nil {
				return nil, nil, err
			}
		}
		return buf, nil, nil
	}
	m["(*math/big.Int).Exp"] = func(ex *Exec, s *State, cc *ssa.CallCommon, a []Value) (Value, *Fork, error) {
		// z.Exp(x, y, m) for a small constant exponent y and modulus m > 0: repeated multiply-and-reduce
		y, err := ex.bigGet(s, a[2])
		if err != nil {
			return nil, nil, err
		}
		if !y.T.IsConst() || y.T.BigVal().BitLen() > 4 {
			return nil, nil, unsupported("big.Int.Exp with a symbolic or large exponent")
		}
		mp, ok := a[3].(Ptr)
		if !ok || mp.Obj == 0 {
			return nil, nil, unsupported("big.Int.Exp without modulus")
		}
		e := int(y.T.BigVal().Int64())
		mulFn, modFn := ex.Models["(*math/big.Int).Mul"], ex.Models["(*math/big.Int).Mod"]
		one := ex.newBig(s, ex.bigConst(big.NewInt(1)))
		acc := ex.newBig(s, ex.bigConst(big.NewInt(1)))
		if _, _, err := modFn(ex, s, cc, []Value{acc, one, a[3]}); err != nil {
			return nil, nil, err
		}
		for i := 0; i < e; i++ {
			if _, _, err := mulFn(ex, s, cc, []Value{acc, acc, a[1]}); err != nil {
				return nil, nil, err
			}
			if _, _, err := modFn(ex, s, cc, []Value{acc, acc, a[3]}); err != nil {
				return nil, nil, err
			}
		}
		r, err := ex.bigGet(s, acc)
		if err != nil {
			return nil, nil, err
		}
		return ex.bigSet(s, a[0], r)
	}
	m["(*math/big.Int).String"] = func(ex *Exec, s *State, cc *ssa.CallCommon, a []Value) (Value, *Fork, error) {
		return ex.strConst("<big.Int>"), nil, nil
	}
	m["(*math/big.Int).ModInverse"] = func(ex *Exec, s *State, cc *ssa.CallCommon, a []Value) (Value, *Fork, error) {
		// z.ModInverse(g, n): inverse of g mod n, or nil (z unchanged) if gcd(g, n) != 1.
		// n must be a (concrete or symbolic) prime given by the harness contract: invertible iff g mod n != 0.
		g, err := ex.bigGet(s, a[1])
		if err != nil {
			return nil, nil, err
		}
		n, err := ex.bigGet(s, a[2])
		if err != nil {
			return nil, nil, err
		}
		if ex.bigIsInt() || !n.T.IsConst() {
			return nil, nil, unsupported("big.Int.ModInverse needs the bit-vector model and a constant modulus")
		}
		nv := n.T.BigVal()
		if !nv.ProbablyPrime(20) {
			return nil, nil, unsupported("big.Int.ModInverse with a composite modulus")
		}
		c := ex.Ctx
		w := ex.bigW()
		ex.invCount++
		inv := c.Var(fmt.Sprintf("modinv!%d", ex.invCount), SBV(w))
		gm := c.BVOp(OURem, g.T, n.T)
		zero := c.Eq(gm, c.BV(w, 0))
		// witness: 0 < inv < n and (g*inv) mod n = 1 ; product width: need 2*bits(n) <= w
		if 2*nv.BitLen() > w {
			return nil, nil, unsupported("big.Int.ModInverse: modulus too wide for the model width")
		}
		prod := c.BVOp(OURem, c.Mul(gm, inv), n.T)
		ok := c.BAnd(c.Cmp(OUlt, c.BV(w, 0), inv), c.Cmp(OUlt, inv, n.T), c.Eq(prod, c.BV(w, 1)))
		f := &Fork{}
		f.Alts = append(f.Alts, Alt{Cond: zero, Ret: Ptr{}})
		f.Alts = append(f.Alts, Alt{Cond: c.BAnd(c.BNot(zero), ok), Ret: lazyBigSet{recv: a[0], v: &BigV{T: inv, MaxBits: nv.BitLen()}}})
		return nil, f, nil
	}
}

type lazyBytes struct{ b []*Term }

// lazyBigSet: fork alternative that stores into the receiver in the successor state.
type lazyBigSet struct {
	recv Value
	v    *BigV
}

var _ = types.Typ

// bvToIntChecked converts a machine-word term to an SMT integer. Additions and
// multiplications are translated structurally (as integer + and *) under the obligation,
// discharged by the solver under the current path condition, that no intermediate value
// leaves [0, 2^w); if the obligation fails the conversion falls back to bv2nat of the word.
func (ex *Exec) bvToIntChecked(s *State, t *Term) *Term {
	c := ex.Ctx
	if t.IsConst() {
		return c.Int(t.BigVal())
	}
	memo := map[int]*Term{}
	var obligations []*Term
	nodes := 0
	var tr func(x *Term) *Term
	tr = func(x *Term) *Term {
		if r, ok := memo[x.ID]; ok {
			return r
		}
		var r *Term
		w := x.S.W
		switch {
		case x.IsConst():
			r = c.Int(x.BigVal())
		case x.Op == OAdd || x.Op == OMul:
			a, b := tr(x.Args[0]), tr(x.Args[1])
			if x.Op == OAdd {
				r = c.IntOp(OIAdd, a, b)
			} else {
				r = c.IntOp(OIMul, a, b)
			}
			nodes++
			obligations = append(obligations, c.IntOp(OILt, r, c.Int(pow2(w))))
		case x.Op == OZExt:
			r = tr(x.Args[0])
		case x.Op == OSExt:
			// unsigned value of a sign extension: inner value, plus 2^w - 2^iw when the sign bit is set
			in := x.Args[0]
			iw := in.S.W
			neg := c.Eq(c.Extract(in, iw-1, iw-1), c.BV(1, 1))
			u := c.BV2Int(in)
			r = c.Ite(neg, c.IntOp(OIAdd, u, c.Int(new(big.Int).Sub(pow2(w), pow2(iw)))), u)
		case x.Op == OIte:
			r = c.Ite(x.Args[0], tr(x.Args[1]), tr(x.Args[2]))
		default:
			r = c.BV2Int(x)
		}
		memo[x.ID] = r
		return r
	}
	r := tr(t)
	if nodes == 0 {
		return r
	}
	bad := c.BNot(c.BAnd(obligations...))
	if ex.checkSat(s, bad) == Unsat {
		ex.IntConversions++
		return r
	}
	return c.BV2Int(t)
}
