package sym

import (
	"fmt"
	"go/types"
	"math/big"

	"golang.org/x/tools/go/ssa"
)

// Algebraic model of filippo.io/edwards25519 (and of the identical API of
// crypto/internal/edwards25519): the curve group is abstracted to Z_8 x Z (torsion part exact,
// prime-order part in characteristic 0, SMT integers).
//
//	point  = (t in Z_8, u in Z), B = (0,1), identity = (0,0)
//	scalar = v in Z ; its action on the torsion part is m8(v), an uninterpreted residue
//	[s]P   = (m8(s)*t, s*u) ; 8P = (0, 8u)
//	decoding: pt_ok(b), pt_t(b), pt_u(b) uninterpreted ; encoding: pt_enc(t,u) with
//	          pt_ok(enc P), pt(enc P) = P asserted whenever Bytes() is taken
//	scalars from bytes: sc_clamp / sc_uniform / sc_canon uninterpreted values; Scalar.Bytes(v) =
//	          scb(v) with sc_canon(scb v) = v and scb v canonical (< L)
//
// Equalities proved in this model are polynomial identities over Z and hold in Z_L as well;
// counterexamples may be spurious and are only reported after native replay.

type ScalarV struct{ V *Term }
type PointV struct {
	T *Term // BV3
	U *Term // Int
}

func (s *ScalarV) Copy() Value { n := *s; return &n }
func (s *ScalarV) Identical(o Value) bool {
	x, ok := o.(*ScalarV)
	return ok && x.V == s.V
}
func (s *ScalarV) Merge(c *Ctx, g *Term, o Value) (Value, bool) {
	x, ok := o.(*ScalarV)
	if !ok {
		return nil, false
	}
	return &ScalarV{V: c.Ite(g, s.V, x.V)}, true
}
func (p *PointV) Copy() Value { n := *p; return &n }
func (p *PointV) Identical(o Value) bool {
	x, ok := o.(*PointV)
	return ok && x.T == p.T && x.U == p.U
}
func (p *PointV) Merge(c *Ctx, g *Term, o Value) (Value, bool) {
	x, ok := o.(*PointV)
	if !ok {
		return nil, false
	}
	return &PointV{T: c.Ite(g, p.T, x.T), U: c.Ite(g, p.U, x.U)}, true
}

var edL, _ = new(big.Int).SetString("7237005577332262213973186563042994240857116359379907606001950938285454250989", 10)

func (ex *Exec) edwardsZero(t types.Type) (Value, bool) {
	if ex.NoEdwards {
		return nil, false
	}
	switch namedPath(t) {
	case "filippo.io/edwards25519.Scalar", "crypto/internal/edwards25519.Scalar":
		return &ScalarV{V: ex.Ctx.IntI(0)}, true
	case "filippo.io/edwards25519.Point", "crypto/internal/edwards25519.Point":
		return &PointV{T: ex.Ctx.BV(3, 0), U: ex.Ctx.IntI(0)}, true
	}
	return nil, false
}

func (ex *Exec) leConcat(bs []*Term) *Term {
	// little-endian integer of the bytes as one bit-vector (byte 0 least significant)
	rev := make([]*Term, len(bs))
	for i := range bs {
		rev[len(bs)-1-i] = bs[i]
	}
	return ex.Ctx.Concat(rev...)
}

func (ex *Exec) newErr(s *State, msg string) Value {
	et := ex.lookupType("errors", "errorString")
	id := ex.newObject(s, &StructV{F: []Value{ex.strConst(msg)}}, et)
	return IfaceV{T: types.NewPointer(et), V: Ptr{Obj: id}}
}

func registerEdwardsModels(ex *Exec) {
	for _, pkg := range []string{"filippo.io/edwards25519", "crypto/internal/edwards25519"} {
		registerEdwardsFor(ex, pkg)
	}
}

func registerEdwardsFor(ex *Exec, pkg string) {
	m := ex.Models
	wrap := func(name string, f ModelFn) {
		m[name] = func(ex *Exec, s *State, cc *ssa.CallCommon, a []Value) (Value, *Fork, error) {
			if ex.NoEdwards {
				return nil, nil, errFallThrough
			}
			return f(ex, s, cc, a)
		}
	}
	sc := func(ex *Exec, s *State, v Value) (*ScalarV, error) {
		p, ok := v.(Ptr)
		if !ok || p.Obj == 0 {
			return nil, &goPanic{"nil *edwards25519.Scalar"}
		}
		lv, err := ex.load(s, p)
		if err != nil {
			return nil, err
		}
		x, ok := lv.(*ScalarV)
		if !ok {
			return nil, unsupported("Scalar object holds %T", lv)
		}
		return x, nil
	}
	pt := func(ex *Exec, s *State, v Value) (*PointV, error) {
		p, ok := v.(Ptr)
		if !ok || p.Obj == 0 {
			return nil, &goPanic{"nil *edwards25519.Point"}
		}
		lv, err := ex.load(s, p)
		if err != nil {
			return nil, err
		}
		x, ok := lv.(*PointV)
		if !ok {
			return nil, unsupported("Point object holds %T", lv)
		}
		return x, nil
	}
	setS := func(ex *Exec, s *State, recv Value, v *Term) (Value, *Fork, error) {
		return recv, nil, ex.store(s, recv.(Ptr), &ScalarV{V: v})
	}
	setP := func(ex *Exec, s *State, recv Value, t, u *Term) (Value, *Fork, error) {
		return recv, nil, ex.store(s, recv.(Ptr), &PointV{T: t, U: u})
	}
	m8 := func(ex *Exec, v *Term) *Term { return ex.Ctx.App("m8", SBV(3), v) }
	st := ex.lookupTypeLazy(pkg, "Scalar")
	ptT := ex.lookupTypeLazy(pkg, "Point")

	wrap(pkg+".NewScalar", func(ex *Exec, s *State, cc *ssa.CallCommon, a []Value) (Value, *Fork, error) {
		id := ex.newObject(s, &ScalarV{V: ex.Ctx.IntI(0)}, st())
		return Ptr{Obj: id}, nil, nil
	})
	wrap(pkg+".NewIdentityPoint", func(ex *Exec, s *State, cc *ssa.CallCommon, a []Value) (Value, *Fork, error) {
		id := ex.newObject(s, &PointV{T: ex.Ctx.BV(3, 0), U: ex.Ctx.IntI(0)}, ptT())
		return Ptr{Obj: id}, nil, nil
	})
	wrap(pkg+".NewGeneratorPoint", func(ex *Exec, s *State, cc *ssa.CallCommon, a []Value) (Value, *Fork, error) {
		id := ex.newObject(s, &PointV{T: ex.Ctx.BV(3, 0), U: ex.Ctx.IntI(1)}, ptT())
		return Ptr{Obj: id}, nil, nil
	})
	fromBytes := func(uf string, n int) ModelFn {
		return func(ex *Exec, s *State, cc *ssa.CallCommon, a []Value) (Value, *Fork, error) {
			bs, err := ex.sliceBytes(s, a[1].(SliceV))
			if err != nil {
				return nil, nil, err
			}
			if len(bs) != n {
				return TupleV{Ptr{}, ex.newErr(s, "edwards25519: invalid input length")}, nil, nil
			}
			if uf == "sc_canon" {
				c := ex.Ctx
				le := ex.leConcat(bs)
				ok := c.Cmp(OUlt, le, c.BVBig(256, edL))
				val := c.App(uf, SInt, le)
				f := &Fork{}
				// canonical encodings are in bijection with the values: encoding the decoded value gives the bytes back
				back := c.Eq(c.App("scb", SBV(256), val), le)
				f.Alts = append(f.Alts, Alt{Cond: c.BAnd(ok, back), Ret: lazyEdSet{recv: a[0], v: &ScalarV{V: val}}})
				f.Alts = append(f.Alts, Alt{Cond: c.BNot(ok), Ret: TupleV{Ptr{}, ex.newErr(s, "invalid scalar encoding")}})
				return nil, f, nil
			}
			val := ex.Ctx.App(uf, SInt, ex.leConcat(bs))
			if uf == "sc_clamp" {
				// a clamped scalar (2^254 + 8j) is never a multiple of the group order
				s.PC = append(s.PC, ex.Ctx.BNot(ex.Ctx.Eq(val, ex.Ctx.IntI(0))))
			}
			r, _, err := setS(ex, s, a[0], val)
			return TupleV{r, IfaceV{}}, nil, err
		}
	}
	wrap("(*"+pkg+".Scalar).SetBytesWithClamping", fromBytes("sc_clamp", 32))
	wrap("(*"+pkg+".Scalar).SetUniformBytes", fromBytes("sc_uniform", 64))
	wrap("(*"+pkg+".Scalar).SetCanonicalBytes", fromBytes("sc_canon", 32))
	wrap("(*"+pkg+".Scalar).Set", func(ex *Exec, s *State, cc *ssa.CallCommon, a []Value) (Value, *Fork, error) {
		x, err := sc(ex, s, a[1])
		if err != nil {
			return nil, nil, err
		}
		return setS(ex, s, a[0], x.V)
	})
	scBin := func(f func(c *Ctx, x, y *Term) *Term) ModelFn {
		return func(ex *Exec, s *State, cc *ssa.CallCommon, a []Value) (Value, *Fork, error) {
			x, err := sc(ex, s, a[1])
			if err != nil {
				return nil, nil, err
			}
			y, err := sc(ex, s, a[2])
			if err != nil {
				return nil, nil, err
			}
			return setS(ex, s, a[0], f(ex.Ctx, x.V, y.V))
		}
	}
	wrap("(*"+pkg+".Scalar).Add", scBin(func(c *Ctx, x, y *Term) *Term { return c.IntOp(OIAdd, x, y) }))
	wrap("(*"+pkg+".Scalar).Subtract", scBin(func(c *Ctx, x, y *Term) *Term { return c.IntOp(OISub, x, y) }))
	wrap("(*"+pkg+".Scalar).Multiply", scBin(func(c *Ctx, x, y *Term) *Term { return c.IntOp(OIMul, x, y) }))
	wrap("(*"+pkg+".Scalar).Negate", func(ex *Exec, s *State, cc *ssa.CallCommon, a []Value) (Value, *Fork, error) {
		x, err := sc(ex, s, a[1])
		if err != nil {
			return nil, nil, err
		}
		return setS(ex, s, a[0], ex.Ctx.IntOp(OISub, ex.Ctx.IntI(0), x.V))
	})
	wrap("(*"+pkg+".Scalar).MultiplyAdd", func(ex *Exec, s *State, cc *ssa.CallCommon, a []Value) (Value, *Fork, error) {
		x, err := sc(ex, s, a[1])
		if err != nil {
			return nil, nil, err
		}
		y, err := sc(ex, s, a[2])
		if err != nil {
			return nil, nil, err
		}
		z, err := sc(ex, s, a[3])
		if err != nil {
			return nil, nil, err
		}
		c := ex.Ctx
		return setS(ex, s, a[0], c.IntOp(OIAdd, c.IntOp(OIMul, x.V, y.V), z.V))
	})
	wrap("(*"+pkg+".Scalar).Equal", func(ex *Exec, s *State, cc *ssa.CallCommon, a []Value) (Value, *Fork, error) {
		x, err := sc(ex, s, a[0])
		if err != nil {
			return nil, nil, err
		}
		y, err := sc(ex, s, a[1])
		if err != nil {
			return nil, nil, err
		}
		c := ex.Ctx
		return c.Ite(c.Eq(x.V, y.V), c.BV(64, 1), c.BV(64, 0)), nil, nil
	})
	wrap("(*"+pkg+".Scalar).Bytes", func(ex *Exec, s *State, cc *ssa.CallCommon, a []Value) (Value, *Fork, error) {
		x, err := sc(ex, s, a[0])
		if err != nil {
			return nil, nil, err
		}
		c := ex.Ctx
		enc := c.App("scb", SBV(256), x.V) // little-endian integer of the 32 bytes
		// contract: canonical, and decoding gives the value back
		s.PC = append(s.PC, c.Cmp(OUlt, enc, c.BVBig(256, edL)), c.Eq(c.App("sc_canon", SInt, enc), x.V))
		bs := make([]*Term, 32)
		for i := 0; i < 32; i++ {
			bs[i] = c.Extract(enc, 8*i+7, 8*i)
		}
		return ex.newByteSlice(s, bs), nil, nil
	})
	// ---- points
	wrap("(*"+pkg+".Point).Set", func(ex *Exec, s *State, cc *ssa.CallCommon, a []Value) (Value, *Fork, error) {
		x, err := pt(ex, s, a[1])
		if err != nil {
			return nil, nil, err
		}
		return setP(ex, s, a[0], x.T, x.U)
	})
	wrap("(*"+pkg+".Point).ScalarBaseMult", func(ex *Exec, s *State, cc *ssa.CallCommon, a []Value) (Value, *Fork, error) {
		x, err := sc(ex, s, a[1])
		if err != nil {
			return nil, nil, err
		}
		return setP(ex, s, a[0], ex.Ctx.BV(3, 0), x.V)
	})
	smul := func(ex *Exec, k *ScalarV, p *PointV) (*Term, *Term) {
		c := ex.Ctx
		return c.Mul(m8(ex, k.V), p.T), c.IntOp(OIMul, k.V, p.U)
	}
	scalarMult := func(ex *Exec, s *State, cc *ssa.CallCommon, a []Value) (Value, *Fork, error) {
		k, err := sc(ex, s, a[1])
		if err != nil {
			return nil, nil, err
		}
		p, err := pt(ex, s, a[2])
		if err != nil {
			return nil, nil, err
		}
		t, u := smul(ex, k, p)
		return setP(ex, s, a[0], t, u)
	}
	wrap("(*"+pkg+".Point).ScalarMult", scalarMult)
	wrap("(*"+pkg+".Point).VarTimeScalarMult", scalarMult)
	dsm := func(ex *Exec, s *State, cc *ssa.CallCommon, a []Value) (Value, *Fork, error) {
		// v = a*A + b*B
		k, err := sc(ex, s, a[1])
		if err != nil {
			return nil, nil, err
		}
		p, err := pt(ex, s, a[2])
		if err != nil {
			return nil, nil, err
		}
		b, err := sc(ex, s, a[3])
		if err != nil {
			return nil, nil, err
		}
		t, u := smul(ex, k, p)
		return setP(ex, s, a[0], t, ex.Ctx.IntOp(OIAdd, u, b.V))
	}
	wrap("(*"+pkg+".Point).VarTimeDoubleScalarBaseMult", dsm)
	msm := func(ex *Exec, s *State, cc *ssa.CallCommon, a []Value) (Value, *Fork, error) {
		ss, err := ex.sliceElems(s, a[1].(SliceV))
		if err != nil {
			return nil, nil, err
		}
		ps, err := ex.sliceElems(s, a[2].(SliceV))
		if err != nil {
			return nil, nil, err
		}
		if len(ss) != len(ps) {
			return nil, nil, &goPanic{"edwards25519: called MultiScalarMult with different size inputs"}
		}
		c := ex.Ctx
		t, u := c.BV(3, 0), c.IntI(0)
		for i := range ss {
			k, err := sc(ex, s, ss[i])
			if err != nil {
				return nil, nil, err
			}
			p, err := pt(ex, s, ps[i])
			if err != nil {
				return nil, nil, err
			}
			ti, ui := smul(ex, k, p)
			t, u = c.Add(t, ti), c.IntOp(OIAdd, u, ui)
		}
		return setP(ex, s, a[0], t, u)
	}
	wrap("(*"+pkg+".Point).VarTimeMultiScalarMult", msm)
	wrap("(*"+pkg+".Point).MultiScalarMult", msm)
	ptBin := func(sub bool) ModelFn {
		return func(ex *Exec, s *State, cc *ssa.CallCommon, a []Value) (Value, *Fork, error) {
			x, err := pt(ex, s, a[1])
			if err != nil {
				return nil, nil, err
			}
			y, err := pt(ex, s, a[2])
			if err != nil {
				return nil, nil, err
			}
			c := ex.Ctx
			if sub {
				return setP(ex, s, a[0], c.Sub(x.T, y.T), c.IntOp(OISub, x.U, y.U))
			}
			return setP(ex, s, a[0], c.Add(x.T, y.T), c.IntOp(OIAdd, x.U, y.U))
		}
	}
	wrap("(*"+pkg+".Point).Add", ptBin(false))
	wrap("(*"+pkg+".Point).Subtract", ptBin(true))
	wrap("(*"+pkg+".Point).Negate", func(ex *Exec, s *State, cc *ssa.CallCommon, a []Value) (Value, *Fork, error) {
		x, err := pt(ex, s, a[1])
		if err != nil {
			return nil, nil, err
		}
		c := ex.Ctx
		return setP(ex, s, a[0], c.Neg(x.T), c.IntOp(OISub, c.IntI(0), x.U))
	})
	wrap("(*"+pkg+".Point).MultByCofactor", func(ex *Exec, s *State, cc *ssa.CallCommon, a []Value) (Value, *Fork, error) {
		x, err := pt(ex, s, a[1])
		if err != nil {
			return nil, nil, err
		}
		c := ex.Ctx
		return setP(ex, s, a[0], c.BV(3, 0), c.IntOp(OIMul, c.IntI(8), x.U))
	})
	wrap("(*"+pkg+".Point).Equal", func(ex *Exec, s *State, cc *ssa.CallCommon, a []Value) (Value, *Fork, error) {
		x, err := pt(ex, s, a[0])
		if err != nil {
			return nil, nil, err
		}
		y, err := pt(ex, s, a[1])
		if err != nil {
			return nil, nil, err
		}
		c := ex.Ctx
		return c.Ite(c.BAnd(c.Eq(x.T, y.T), c.Eq(x.U, y.U)), c.BV(64, 1), c.BV(64, 0)), nil, nil
	})
	wrap("(*"+pkg+".Point).SetBytes", func(ex *Exec, s *State, cc *ssa.CallCommon, a []Value) (Value, *Fork, error) {
		bs, err := ex.sliceBytes(s, a[1].(SliceV))
		if err != nil {
			return nil, nil, err
		}
		if len(bs) != 32 {
			return TupleV{Ptr{}, ex.newErr(s, "edwards25519: invalid point encoding length")}, nil, nil
		}
		c := ex.Ctx
		le := ex.leConcat(bs)
		ok := c.App("pt_ok", SBool, le)
		f := &Fork{}
		f.Alts = append(f.Alts, Alt{Cond: ok, Ret: lazyEdSet{recv: a[0], v: &PointV{T: c.App("pt_t", SBV(3), le), U: c.App("pt_u", SInt, le)}}})
		f.Alts = append(f.Alts, Alt{Cond: c.BNot(ok), Ret: TupleV{Ptr{}, ex.newErr(s, "edwards25519: invalid point encoding")}})
		return nil, f, nil
	})
	wrap("(*"+pkg+".Point).Bytes", func(ex *Exec, s *State, cc *ssa.CallCommon, a []Value) (Value, *Fork, error) {
		x, err := pt(ex, s, a[0])
		if err != nil {
			return nil, nil, err
		}
		c := ex.Ctx
		enc := c.App("pt_enc", SBV(256), x.T, x.U)
		s.PC = append(s.PC, c.App("pt_ok", SBool, enc), c.Eq(c.App("pt_t", SBV(3), enc), x.T), c.Eq(c.App("pt_u", SInt, enc), x.U))
		// Bytes() produces the canonical encoding: y < p = 2^255-19, and never the two encodings of
		// x = 0 with the sign bit set
		pm := new(big.Int).Sub(new(big.Int).Lsh(big.NewInt(1), 255), big.NewInt(19))
		nc1 := new(big.Int).Add(new(big.Int).Lsh(big.NewInt(1), 255), big.NewInt(1))
		nc2 := new(big.Int).Add(new(big.Int).Lsh(big.NewInt(1), 255), new(big.Int).Sub(pm, big.NewInt(1)))
		s.PC = append(s.PC, c.Cmp(OUlt, c.Extract(enc, 254, 0), c.BVBig(255, pm)),
			c.BNot(c.Eq(enc, c.BVBig(256, nc1))), c.BNot(c.Eq(enc, c.BVBig(256, nc2))))
		bs := make([]*Term, 32)
		for i := 0; i < 32; i++ {
			bs[i] = c.Extract(enc, 8*i+7, 8*i)
		}
		return ex.newByteSlice(s, bs), nil, nil
	})
}

// lazyEdSet: fork alternative that stores a model value into the receiver and returns (recv, nil).
type lazyEdSet struct {
	recv Value
	v    Value
}

var errFallThrough = &execError{"fallthrough"}

func (ex *Exec) lookupTypeLazy(pkg, name string) func() types.Type {
	var t types.Type
	return func() types.Type {
		if t == nil {
			t = ex.lookupType(pkg, name)
		}
		return t
	}
}

var _ = fmt.Sprintf
