package sym

func registerHashModels(ex *Exec) {}
