package sym

import (
	"crypto"
	"crypto/sha256"
	"crypto/sha512"
	"fmt"
	"go/types"
	"strings"

	"golang.org/x/tools/go/ssa"
)

// Hash functions are uninterpreted: a digest is UF_<kind>_<shape>(input bytes), so two
// digests are equal whenever their inputs are equal terms (functional determinism only).
// With all-constant input SHA-256/512 are computed for real.

type hashSeg struct {
	B    []*Term
	Blob *Term // opaque blob (sort Blob), if non-nil
}

type HashV struct {
	Kind   string
	OutLen int
	Block  int
	Key    []*Term
	Keyed  bool
	Segs   []hashSeg
	Squeezed bool
}

func (h *HashV) Copy() Value {
	n := *h
	n.Segs = append([]hashSeg{}, h.Segs...)
	return &n
}

func (h *HashV) Identical(o Value) bool {
	x, ok := o.(*HashV)
	if !ok || x.Kind != h.Kind || len(x.Segs) != len(h.Segs) || len(x.Key) != len(h.Key) {
		return false
	}
	for i := range h.Key {
		if h.Key[i] != x.Key[i] {
			return false
		}
	}
	for i := range h.Segs {
		a, b := h.Segs[i], x.Segs[i]
		if a.Blob != b.Blob || len(a.B) != len(b.B) {
			return false
		}
		for j := range a.B {
			if a.B[j] != b.B[j] {
				return false
			}
		}
	}
	return true
}

func (h *HashV) Merge(c *Ctx, g *Term, other Value) (Value, bool) {
	x, ok := other.(*HashV)
	if !ok || x.Kind != h.Kind || len(x.Segs) != len(h.Segs) || len(x.Key) != len(h.Key) {
		return nil, false
	}
	n := h.Copy().(*HashV)
	n.Key = make([]*Term, len(h.Key))
	for i := range h.Key {
		n.Key[i] = c.Ite(g, h.Key[i], x.Key[i])
	}
	for i := range h.Segs {
		a, b := h.Segs[i], x.Segs[i]
		if a.Blob != b.Blob || len(a.B) != len(b.B) {
			return nil, false
		}
		nb := make([]*Term, len(a.B))
		for j := range a.B {
			nb[j] = c.Ite(g, a.B[j], b.B[j])
		}
		n.Segs[i] = hashSeg{B: nb, Blob: a.Blob}
	}
	return n, true
}

var hashType = types.NewNamed(types.NewTypeName(0, nil, "verifModelHash", nil), types.NewStruct(nil, nil), nil)

func (ex *Exec) newHash(s *State, kind string, outLen, block int, key []*Term, keyed bool) Value {
	id := ex.newObject(s, &HashV{Kind: kind, OutLen: outLen, Block: block, Key: key, Keyed: keyed}, nil)
	return IfaceV{T: types.NewPointer(hashType), V: Ptr{Obj: id}}
}

func sanitize(s string) string {
	return strings.NewReplacer("/", "_", ".", "_", "-", "_", "*", "", "(", "", ")", "").Replace(s)
}

// digest builds the digest term (BV 8*OutLen) of the accumulated input.
func (ex *Exec) digest(h *HashV) *Term {
	c := ex.Ctx
	// flatten: merge adjacent byte segments
	var args []*Term
	var shape []string
	var cur []*Term
	allConst := !h.Keyed
	flush := func() {
		if len(cur) > 0 {
			args = append(args, c.Concat(cur...))
			shape = append(shape, fmt.Sprint(len(cur)))
			cur = nil
		}
	}
	if h.Keyed {
		if len(h.Key) > 0 {
			args = append(args, c.Concat(h.Key...))
		}
		shape = append(shape, fmt.Sprintf("k%d", len(h.Key)))
	}
	for _, sg := range h.Segs {
		if sg.Blob != nil {
			flush()
			args = append(args, sg.Blob)
			shape = append(shape, "b")
			allConst = false
			continue
		}
		for _, b := range sg.B {
			if !b.IsConst() {
				allConst = false
			}
		}
		cur = append(cur, sg.B...)
	}
	if false && allConst && (h.Kind == "sha256" || h.Kind == "sha512") { // disabled: mixing real digests of constants with UF digests of symbolic bytes is inconsistent
		bs := make([]byte, len(cur))
		for i, b := range cur {
			bs[i] = byte(b.U)
		}
		var d []byte
		if h.Kind == "sha256" {
			x := sha256.Sum256(bs)
			d = x[:]
		} else {
			x := sha512.Sum512(bs)
			d = x[:]
		}
		out := make([]*Term, len(d))
		for i := range d {
			out[i] = c.BV(8, uint64(d[i]))
		}
		return c.Concat(out...)
	}
	flush()
	name := fmt.Sprintf("H_%s_%s", sanitize(h.Kind), strings.Join(shape, "_"))
	return c.App(name, SBV(8*h.OutLen), args...)
}

func (ex *Exec) digestBytes(h *HashV) []*Term {
	d := ex.digest(h)
	out := make([]*Term, h.OutLen)
	for i := 0; i < h.OutLen; i++ {
		hi := 8*(h.OutLen-i) - 1
		out[i] = ex.Ctx.Extract(d, hi, hi-7)
	}
	return out
}

func (ex *Exec) hashObj(s *State, v Value, write bool) (*HashV, error) {
	p, ok := v.(Ptr)
	if !ok || p.Obj == 0 {
		return nil, unsupported("hash receiver %T", v)
	}
	var o *Object
	if write {
		o = ex.writable(s, p.Obj)
	} else {
		o = s.Heap[p.Obj]
	}
	h, ok := o.V.(*HashV)
	if !ok {
		return nil, unsupported("hash receiver object %T", o.V)
	}
	return h, nil
}

func (ex *Exec) bytesArg(s *State, v Value) (hashSeg, error) {
	switch x := v.(type) {
	case SliceV:
		if x.Obj != 0 {
			if ob, ok := s.Heap[x.Obj].V.(*OpaqueBlob); ok {
				return hashSeg{Blob: ob.T}, nil
			}
		}
		bs, err := ex.sliceBytes(s, x)
		return hashSeg{B: bs}, err
	case StringV:
		return hashSeg{B: x.B}, nil
	}
	return hashSeg{}, unsupported("hash input %T", v)
}

// curlTrits: the 243 output trits of the uninterpreted Curl-P-81 sponge for the absorbed input; two
// uninterpreted bits per trit (sign, non-zero) so that every value is a trit by construction.
func (ex *Exec) curlTrits(h *HashV) []*Term {
	c := ex.Ctx
	// The sponge is an unknown deterministic function of the absorbed trits. Identical input terms
	// give the same output symbols (memoised by term identity); for syntactically different inputs
	// the congruence axiom "equal inputs => equal outputs" is added lazily, when a counterexample
	// candidate gives two instances equal inputs (refineOpaque) - a single uninterpreted function
	// over the 1944-bit packed input makes every query take minutes.
	var in []*Term
	var kb strings.Builder
	kb.WriteString("curl")
	for _, sg := range h.Segs {
		for _, b := range sg.B {
			fmt.Fprintf(&kb, ",%d", b.ID)
		}
		in = append(in, sg.B...)
	}
	key := kb.String()
	if r, ok := ex.opaqueMemo[key]; ok {
		return r
	}
	k := len(ex.opaqueMemo)
	out := make([]*Term, 243)
	for i := 0; i < 243; i++ {
		neg := c.Var(fmt.Sprintf("curl!%d!%d!neg", k, i), SBool)
		nz := c.Var(fmt.Sprintf("curl!%d!%d!nz", k, i), SBool)
		out[i] = c.Ite(nz, c.Ite(neg, c.BV(8, 0xFF), c.BV(8, 1)), c.BV(8, 0))
	}
	ex.opaqueMemo[key] = out
	ex.opaqueInst = append(ex.opaqueInst, opaqueInst{In: in, Out: out})
	return out
}

// opaqueInst: one application of a memoised opaque function (see curlTrits).
type opaqueInst struct {
	In, Out []*Term
}

// refineOpaque is called with a satisfiable counterexample candidate `as`. It asks the solver for the
// inputs of all opaque-function instances under the candidate's model and returns the congruence
// axioms (equal inputs => equal outputs) of instance pairs that have equal inputs in the model and no
// axiom yet. No new axiom means the candidate respects functional consistency.
func (ex *Exec) refineOpaque(as []*Term) (axioms []*Term, res Result) {
	c := ex.Ctx
	seen := map[*Term]bool{}
	var want []*Term
	for _, inst := range ex.opaqueInst {
		for _, t := range inst.In {
			if !t.IsConst() && !seen[t] {
				seen[t] = true
				want = append(want, t)
			}
		}
	}
	res, model := ex.Solver.Check(as, want)
	if res != Sat {
		return nil, res
	}
	groups := map[string][]int{}
	for k, inst := range ex.opaqueInst {
		var kb strings.Builder
		fmt.Fprintf(&kb, "%d:", len(inst.In))
		for _, t := range inst.In {
			var v uint64
			if t.IsConst() {
				v = t.U
			} else if mv, ok := model[t]; ok {
				v = mv.Uint64()
			}
			fmt.Fprintf(&kb, "%x,", v)
		}
		groups[kb.String()] = append(groups[kb.String()], k)
	}
	for _, g := range groups {
		for x := 1; x < len(g); x++ {
			a, b := g[0], g[x]
			pk := fmt.Sprintf("%d/%d", a, b)
			if ex.opaquePairs[pk] {
				continue
			}
			ex.opaquePairs[pk] = true
			ia, ib := ex.opaqueInst[a], ex.opaqueInst[b]
			var ins, outs []*Term
			for i := range ia.In {
				ins = append(ins, c.Eq(ia.In[i], ib.In[i]))
			}
			for i := range ia.Out {
				outs = append(outs, c.Eq(ia.Out[i], ib.Out[i]))
			}
			axioms = append(axioms, c.BOr(c.BNot(c.BAnd(ins...)), c.BAnd(outs...)))
		}
	}
	return axioms, Sat
}

// OpaqueBlob: a byte string of unknown length and content that the code may only pass on.
type OpaqueBlob struct{ T *Term }

func (o *OpaqueBlob) Copy() Value { return o }
func (o *OpaqueBlob) Identical(v Value) bool {
	x, ok := v.(*OpaqueBlob)
	return ok && x.T == o.T
}

// hashMethod dispatches a method call on a modelled hash.Hash.
func (ex *Exec) hashMethod(s *State, name string, args []Value) (Value, *Fork, error) {
	c := ex.Ctx
	switch name {
	case "Write":
		h, err := ex.hashObj(s, args[0], true)
		if err != nil {
			return nil, nil, err
		}
		sg, err := ex.bytesArg(s, args[1])
		if err != nil {
			return nil, nil, err
		}
		h.Segs = append(h.Segs, sg)
		n := c.BV(64, uint64(len(sg.B)))
		return TupleV{n, IfaceV{}}, nil, nil
	case "Sum":
		h, err := ex.hashObj(s, args[0], false)
		if err != nil {
			return nil, nil, err
		}
		d := ex.digestBytes(h)
		vals := make([]Value, len(d))
		for i := range d {
			vals[i] = d[i]
		}
		pre, _ := args[1].(SliceV)
		r, err := ex.appendElems(s, pre, vals, types.Typ[types.Uint8])
		return r, nil, err
	case "Absorb":
		h, err := ex.hashObj(s, args[0], true)
		if err != nil {
			return nil, nil, err
		}
		sg, err := ex.bytesArg(s, args[1])
		if err != nil {
			return nil, nil, err
		}
		if len(sg.B)%243 != 0 || len(sg.B) == 0 {
			return nil, nil, unsupported("curl model: Absorb of %d trits", len(sg.B))
		}
		h.Segs = append(h.Segs, sg)
		return IfaceV{}, nil, nil
	case "Squeeze", "MustSqueeze":
		h, err := ex.hashObj(s, args[0], true)
		if err != nil {
			return nil, nil, err
		}
		n := args[1].(*Term)
		if !n.IsConst() || int(n.U) != h.OutLen || h.Squeezed {
			return nil, nil, unsupported("curl model: only one Squeeze of %d trits is modelled", h.OutLen)
		}
		h.Squeezed = true
		d := ex.curlTrits(h) // the output consists of trits by construction
		sl := ex.newByteSlice(s, d)
		if name == "MustSqueeze" {
			return sl, nil, nil
		}
		return TupleV{sl, IfaceV{}}, nil, nil
	case "Reset":
		h, err := ex.hashObj(s, args[0], true)
		if err != nil {
			return nil, nil, err
		}
		h.Segs = nil
		return nil, nil, nil
	case "Size":
		h, err := ex.hashObj(s, args[0], false)
		if err != nil {
			return nil, nil, err
		}
		return c.BV(64, uint64(h.OutLen)), nil, nil
	case "BlockSize":
		h, err := ex.hashObj(s, args[0], false)
		if err != nil {
			return nil, nil, err
		}
		return c.BV(64, uint64(h.Block)), nil, nil
	}
	return nil, nil, unsupported("hash method %s", name)
}

func (ex *Exec) sumArray(s *State, kind string, outLen int, in Value) (Value, error) {
	sg, err := ex.bytesArg(s, in)
	if err != nil {
		return nil, err
	}
	h := &HashV{Kind: kind, OutLen: outLen, Segs: []hashSeg{sg}}
	d := ex.digestBytes(h)
	av := &ArrayV{E: make([]Value, outLen)}
	for i := range d {
		av.E[i] = d[i]
	}
	return av, nil
}

func registerHashModels(ex *Exec) {
	m := ex.Models
	m["crypto/sha256.New"] = func(ex *Exec, s *State, cc *ssa.CallCommon, a []Value) (Value, *Fork, error) {
		return ex.newHash(s, "sha256", 32, 64, nil, false), nil, nil
	}
	m["crypto/sha512.New"] = func(ex *Exec, s *State, cc *ssa.CallCommon, a []Value) (Value, *Fork, error) {
		return ex.newHash(s, "sha512", 64, 128, nil, false), nil, nil
	}
	m["golang.org/x/crypto/ripemd160.New"] = func(ex *Exec, s *State, cc *ssa.CallCommon, a []Value) (Value, *Fork, error) {
		return ex.newHash(s, "ripemd160", 20, 64, nil, false), nil, nil
	}
	m["github.com/iotaledger/iota.go/curl.NewCurlP81"] = func(ex *Exec, s *State, cc *ssa.CallCommon, a []Value) (Value, *Fork, error) {
		return ex.newHash(s, "curlp81", 243, 243, nil, false), nil, nil
	}
	m["crypto/sha256.Sum256"] = func(ex *Exec, s *State, cc *ssa.CallCommon, a []Value) (Value, *Fork, error) {
		v, err := ex.sumArray(s, "sha256", 32, a[0])
		return v, nil, err
	}
	m["crypto/sha512.Sum512"] = func(ex *Exec, s *State, cc *ssa.CallCommon, a []Value) (Value, *Fork, error) {
		v, err := ex.sumArray(s, "sha512", 64, a[0])
		return v, nil, err
	}
	m["golang.org/x/crypto/blake2b.Sum256"] = func(ex *Exec, s *State, cc *ssa.CallCommon, a []Value) (Value, *Fork, error) {
		v, err := ex.sumArray(s, "blake2b256", 32, a[0])
		return v, nil, err
	}
	blakeNew := func(kind string, out int) ModelFn {
		return func(ex *Exec, s *State, cc *ssa.CallCommon, a []Value) (Value, *Fork, error) {
			var key []*Term
			keyed := false
			if sl, ok := a[len(a)-1].(SliceV); ok && sl.Len > 0 {
				k, err := ex.sliceBytes(s, sl)
				if err != nil {
					return nil, nil, err
				}
				key, keyed = k, true
			}
			return TupleV{ex.newHash(s, kind, out, 128, key, keyed), IfaceV{}}, nil, nil
		}
	}
	m["golang.org/x/crypto/blake2b.New256"] = blakeNew("blake2b256", 32)
	m["golang.org/x/crypto/blake2b.New512"] = blakeNew("blake2b512", 64)
	m["golang.org/x/crypto/blake2b.New"] = func(ex *Exec, s *State, cc *ssa.CallCommon, a []Value) (Value, *Fork, error) {
		sz := a[0].(*Term)
		if !sz.IsConst() {
			return nil, nil, unsupported("blake2b.New with symbolic size")
		}
		return blakeNew(fmt.Sprintf("blake2b%d", sz.U*8), int(sz.U))(ex, s, cc, a)
	}
	m["(crypto.Hash).New"] = func(ex *Exec, s *State, cc *ssa.CallCommon, a []Value) (Value, *Fork, error) {
		h := a[0].(*Term)
		if !h.IsConst() {
			return nil, nil, unsupported("crypto.Hash.New on symbolic hash id")
		}
		ch := crypto.Hash(h.U)
		if ch == 0 || ch >= 20 {
			return nil, nil, &goPanic{"crypto: requested hash function is unavailable"}
		}
		return ex.newHash(s, fmt.Sprintf("cryptohash%d", h.U), ch.Size(), 64, nil, false), nil, nil
	}
	m["(crypto.Hash).Size"] = func(ex *Exec, s *State, cc *ssa.CallCommon, a []Value) (Value, *Fork, error) {
		h := a[0].(*Term)
		if !h.IsConst() || h.U == 0 || h.U >= 20 {
			return nil, nil, unsupported("crypto.Hash.Size on symbolic/unknown hash id")
		}
		return ex.Ctx.BV(64, uint64(crypto.Hash(h.U).Size())), nil, nil
	}
	m["(crypto.Hash).Available"] = func(ex *Exec, s *State, cc *ssa.CallCommon, a []Value) (Value, *Fork, error) {
		return ex.Ctx.True(), nil, nil
	}
	m["crypto/hmac.New"] = func(ex *Exec, s *State, cc *ssa.CallCommon, a []Value) (Value, *Fork, error) {
		f, ok := a[0].(*FuncV)
		if !ok || f == nil || f.Fn == nil {
			return nil, nil, unsupported("hmac.New with non-static hash constructor")
		}
		kind, out := "", 0
		switch f.Fn.String() {
		case "crypto/sha512.New":
			kind, out = "hmac_sha512", 64
		case "crypto/sha256.New":
			kind, out = "hmac_sha256", 32
		default:
			return nil, nil, unsupported("hmac.New over %s", f.Fn)
		}
		key, err := ex.sliceBytes(s, a[1].(SliceV))
		if err != nil {
			return nil, nil, err
		}
		return ex.newHash(s, kind, out, 128, key, true), nil, nil
	}
	m["golang.org/x/crypto/pbkdf2.Key"] = func(ex *Exec, s *State, cc *ssa.CallCommon, a []Value) (Value, *Fork, error) {
		// Key(password, salt []byte, iter, keyLen int, h func() hash.Hash) []byte
		pw, err := ex.bytesArg(s, a[0])
		if err != nil {
			return nil, nil, err
		}
		salt, err := ex.bytesArg(s, a[1])
		if err != nil {
			return nil, nil, err
		}
		it, kl := a[2].(*Term), a[3].(*Term)
		f, _ := a[4].(*FuncV)
		if !kl.IsConst() || f == nil || f.Fn == nil {
			return nil, nil, unsupported("pbkdf2.Key with symbolic key length or dynamic hash")
		}
		c := ex.Ctx
		h := &HashV{Kind: "pbkdf2_" + sanitize(f.Fn.String()), OutLen: int(kl.U), Segs: []hashSeg{}}
		// encode (iter, |pw|) as leading bytes so that the UF depends on them, then pw and salt as separate args via blobs/segments
		itb := make([]*Term, 8)
		for i := 0; i < 8; i++ {
			itb[i] = c.Extract(it, 63-8*i, 56-8*i)
		}
		h.Keyed = true
		h.Key = itb
		h.Segs = append(h.Segs, pw, hashSeg{Blob: c.Var("sep!pbkdf2", Sort{K: KU, Name: "Blob"})}, salt)
		d := ex.digestBytes(h)
		return ex.newByteSlice(s, d), nil, nil
	}
}

// ---- iota.go curl/bct (batched Curl): contract model
//
// Absorb of up to 64 one-block buffers followed by CopyState: lane j of (l[i], h[i]), i < 243,
// encodes trit i of CurlP81(buffer j) with (1,1) = 0, (0,1) = +1, (1,0) = -1, where CurlP81 is
// the same uninterpreted function as the unbatched iota.go curl model.

type BctV struct {
	Lanes [][]*Term
}

func (b *BctV) Copy() Value { n := *b; n.Lanes = append([][]*Term{}, b.Lanes...); return &n }

func registerBctModels(ex *Exec) {
	m := ex.Models
	const pkg = "github.com/iotaledger/iota.go/curl/bct"
	get := func(ex *Exec, s *State, v Value, write bool) (*BctV, error) {
		p, ok := v.(Ptr)
		if !ok || p.Obj == 0 {
			return nil, &goPanic{"nil *bct.Curl"}
		}
		var o *Object
		if write {
			o = ex.writable(s, p.Obj)
		} else {
			o = s.Heap[p.Obj]
		}
		b, ok := o.V.(*BctV)
		if !ok {
			return nil, unsupported("bct.Curl object holds %T", o.V)
		}
		return b, nil
	}
	m[pkg+".NewCurlP81"] = func(ex *Exec, s *State, cc *ssa.CallCommon, a []Value) (Value, *Fork, error) {
		id := ex.newObject(s, &BctV{}, nil)
		return Ptr{Obj: id}, nil, nil
	}
	m["(*"+pkg+".Curl).Reset"] = func(ex *Exec, s *State, cc *ssa.CallCommon, a []Value) (Value, *Fork, error) {
		b, err := get(ex, s, a[0], true)
		if err != nil {
			return nil, nil, err
		}
		b.Lanes = nil
		return nil, nil, nil
	}
	m["(*"+pkg+".Curl).Absorb"] = func(ex *Exec, s *State, cc *ssa.CallCommon, a []Value) (Value, *Fork, error) {
		b, err := get(ex, s, a[0], true)
		if err != nil {
			return nil, nil, err
		}
		n := a[2].(*Term)
		if !n.IsConst() || n.U != 243 || b.Lanes != nil {
			return nil, nil, unsupported("bct model: only one Absorb of 243 trits after Reset is modelled")
		}
		src, err := ex.sliceElems(s, a[1].(SliceV))
		if err != nil {
			return nil, nil, err
		}
		if len(src) < 1 || len(src) > 64 {
			return nil, nil, unsupported("bct model: batch size %d", len(src))
		}
		for _, lane := range src {
			bs, err := ex.sliceBytes(s, lane.(SliceV))
			if err != nil {
				return nil, nil, err
			}
			if len(bs) < 243 {
				return nil, nil, &goPanic{"bct.Absorb: lane shorter than 243 trits"}
			}
			b.Lanes = append(b.Lanes, bs[:243])
		}
		return IfaceV{}, nil, nil
	}
	m["(*"+pkg+".Curl).CopyState"] = func(ex *Exec, s *State, cc *ssa.CallCommon, a []Value) (Value, *Fork, error) {
		b, err := get(ex, s, a[0], false)
		if err != nil {
			return nil, nil, err
		}
		if b.Lanes == nil {
			return nil, nil, unsupported("bct model: CopyState before Absorb")
		}
		c := ex.Ctx
		l, h := a[1].(SliceV), a[2].(SliceV)
		digests := make([][]*Term, 64)
		for j := range digests {
			if j < len(b.Lanes) {
				hv := &HashV{Kind: "curlp81", OutLen: 243, Segs: []hashSeg{{B: b.Lanes[j]}}}
				digests[j] = ex.curlTrits(hv)
			}
		}
		nw := l.Len
		if h.Len < nw {
			nw = h.Len
		}
		if nw > 243 {
			return nil, nil, unsupported("bct model: CopyState of more than the 243 hash words")
		}
		for i := 0; i < nw; i++ {
			lb, hb := make([]*Term, 64), make([]*Term, 64)
			for j := 0; j < 64; j++ {
				var lt, ht *Term
				if digests[j] == nil {
					lt, ht = c.BV(1, 1), c.BV(1, 1)
				} else {
					t := digests[j][i]
					lt = c.Ite(c.Eq(t, c.BV(8, 1)), c.BV(1, 0), c.BV(1, 1))
					ht = c.Ite(c.Eq(t, c.BV(8, 0xFF)), c.BV(1, 0), c.BV(1, 1))
				}
				lb[63-j], hb[63-j] = lt, ht
			}
			if err := ex.store(s, Ptr{Obj: l.Obj, Path: appendPath(l.Path, PE{I: l.Off + i})}, c.Concat(lb...)); err != nil {
				return nil, nil, err
			}
			if err := ex.store(s, Ptr{Obj: h.Obj, Path: appendPath(h.Path, PE{I: h.Off + i})}, c.Concat(hb...)); err != nil {
				return nil, nil, err
			}
		}
		return nil, nil, nil
	}
	// sync/atomic on plain words (single-threaded symbolic execution)
	m["sync/atomic.LoadUint32"] = func(ex *Exec, s *State, cc *ssa.CallCommon, a []Value) (Value, *Fork, error) {
		v, err := ex.load(s, a[0].(Ptr))
		return v, nil, err
	}
	m["sync/atomic.StoreUint32"] = func(ex *Exec, s *State, cc *ssa.CallCommon, a []Value) (Value, *Fork, error) {
		return nil, nil, ex.store(s, a[0].(Ptr), a[1])
	}
	m["sync/atomic.AddUint64"] = func(ex *Exec, s *State, cc *ssa.CallCommon, a []Value) (Value, *Fork, error) {
		v, err := ex.load(s, a[0].(Ptr))
		if err != nil {
			return nil, nil, err
		}
		nv := ex.Ctx.Add(v.(*Term), a[1].(*Term))
		return nv, nil, ex.store(s, a[0].(Ptr), nv)
	}
}
