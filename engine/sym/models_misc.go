package sym

import (
	"golang.org/x/text/unicode/norm"
	"fmt"
	"math"
	"go/types"
	"regexp/syntax"

	"golang.org/x/tools/go/ssa"
)

func registerMiscModels(ex *Exec) {
	m := ex.Models
	m["regexp.MustCompile"] = modelRegexpCompile
	m["(*regexp.Regexp).FindStringSubmatch"] = modelFindStringSubmatch
	m["(*regexp.Regexp).MatchString"] = modelRegexpMatchString
	ident := func(ex *Exec, s *State, cc *ssa.CallCommon, a []Value) (Value, *Fork, error) { return a[0], nil, nil }
	// Unicode normalisation: the identity on ASCII (all normalisation forms leave ASCII unchanged);
	// non-ASCII input is outside the modelled fragment
	// Concrete (constant) stretches are normalised natively with the same golang.org/x/text version the
	// repository uses. For the decomposing forms NFD/NFKD a string is normalised stretch by stretch:
	// symbolic bytes must be ASCII (checked), ASCII characters are starters that never change and never
	// reorder with their neighbours, so NFKD(s) is the concatenation of the unchanged symbolic bytes and
	// the normalised constant stretches. The composing forms need an all-ASCII or all-constant string.
	m["(golang.org/x/text/unicode/norm.Form).String"] = func(ex *Exec, s *State, cc *ssa.CallCommon, a []Value) (Value, *Fork, error) {
		sv := a[1].(StringV)
		allASCII := true
		for _, b := range sv.B {
			if b.IsConst() && b.U >= 0x80 {
				allASCII = false
			}
		}
		if allASCII {
			if err := ex.requireASCII(s, sv.B, "norm.Form.String"); err != nil {
				return nil, nil, err
			}
			return sv, nil, nil
		}
		ft, ok := a[0].(*Term)
		if !ok || !ft.IsConst() {
			return nil, nil, unsupported("norm.Form.String with a symbolic form")
		}
		form := norm.Form(ft.U)
		var sym []*Term
		for _, b := range sv.B {
			if !b.IsConst() {
				sym = append(sym, b)
			}
		}
		if len(sym) > 0 {
			if form != norm.NFD && form != norm.NFKD {
				return nil, nil, unsupported("composing normalisation form on a partly symbolic non-ASCII string")
			}
			if err := ex.requireASCII(s, sym, "norm.Form.String"); err != nil {
				return nil, nil, err
			}
		}
		var out []*Term
		for i := 0; i < len(sv.B); {
			if !sv.B[i].IsConst() {
				out = append(out, sv.B[i])
				i++
				continue
			}
			j := i
			var seg []byte
			for j < len(sv.B) && sv.B[j].IsConst() {
				seg = append(seg, byte(sv.B[j].U))
				j++
			}
			for _, c := range []byte(form.String(string(seg))) {
				out = append(out, ex.Ctx.BV(8, uint64(c)))
			}
			i = j
		}
		return StringV{B: out}, nil, nil
	}
	m["internal/stringslite.Clone"] = ident
	m["strings.Clone"] = ident
	m["strconv.cloneString"] = ident
	// floating point is uninterpreted (bit patterns + UFs); constants are folded natively
	m["math.Pow"] = func(ex *Exec, s *State, cc *ssa.CallCommon, a []Value) (Value, *Fork, error) {
		x, y := a[0].(*Term), a[1].(*Term)
		if x.IsConst() && y.IsConst() {
			return ex.Ctx.BV(64, math.Float64bits(math.Pow(math.Float64frombits(x.U), math.Float64frombits(y.U)))), nil, nil
		}
		if x.IsConst() && y.Op == OIte {
			if r := ex.Ctx.LiftIte(y, func(leaf *Term) *Term {
				return ex.Ctx.BV(64, math.Float64bits(math.Pow(math.Float64frombits(x.U), math.Float64frombits(leaf.U))))
			}); r != nil {
				return r, nil, nil
			}
		}
		return ex.Ctx.App("math_Pow", SBV(64), x, y), nil, nil
	}
	m["math.Float64frombits"] = ident
	m["math.Float64bits"] = ident
	fl1 := func(name string, f func(float64) float64) ModelFn {
		return func(ex *Exec, s *State, cc *ssa.CallCommon, a []Value) (Value, *Fork, error) {
			x := a[0].(*Term)
			if x.IsConst() {
				return ex.Ctx.BV(64, math.Float64bits(f(math.Float64frombits(x.U)))), nil, nil
			}
			return ex.Ctx.App(name, SBV(64), x), nil, nil
		}
	}
	fl2 := func(name string, f func(a, b float64) float64) ModelFn {
		return func(ex *Exec, s *State, cc *ssa.CallCommon, a []Value) (Value, *Fork, error) {
			x, y := a[0].(*Term), a[1].(*Term)
			if x.IsConst() && y.IsConst() {
				return ex.Ctx.BV(64, math.Float64bits(f(math.Float64frombits(x.U), math.Float64frombits(y.U)))), nil, nil
			}
			return ex.Ctx.App(name, SBV(64), x, y), nil, nil
		}
	}
	m["math.Max"] = fl2("math_Max", math.Max)
	m["math.Min"] = fl2("math_Min", math.Min)
	m["math.Log"] = fl1("math_Log", math.Log)
	m["math.Ceil"] = fl1("math_Ceil", math.Ceil)
	m["math.Floor"] = fl1("math_Floor", math.Floor)
	m["math/bits.Len"] = modelBitsLen(64)
	m["math/bits.Len64"] = modelBitsLen(64)
	m["math/bits.Len32"] = modelBitsLen(32)
	m["math/bits.Len8"] = modelBitsLen(8)
	m["math/bits.TrailingZeros64"] = modelBitsTZ(64)
	m["math/bits.TrailingZeros"] = modelBitsTZ(64)
	m["math/bits.TrailingZeros32"] = modelBitsTZ(32)
}

// ---------------------------------------------------------------- math/bits

func modelBitsLen(w int) ModelFn {
	return func(ex *Exec, s *State, cc *ssa.CallCommon, a []Value) (Value, *Fork, error) {
		c := ex.Ctx
		x := a[0].(*Term)
		res := c.BV(64, 0)
		for i := 0; i < w; i++ {
			bit := c.Eq(c.Extract(x, i, i), c.BV(1, 1))
			res = c.Ite(bit, c.BV(64, uint64(i+1)), res)
		}
		return res, nil, nil
	}
}

func modelBitsTZ(w int) ModelFn {
	return func(ex *Exec, s *State, cc *ssa.CallCommon, a []Value) (Value, *Fork, error) {
		c := ex.Ctx
		x := a[0].(*Term)
		res := c.BV(64, uint64(w))
		for i := w - 1; i >= 0; i-- {
			bit := c.Eq(c.Extract(x, i, i), c.BV(1, 1))
			res = c.Ite(bit, c.BV(64, uint64(i)), res)
		}
		return res, nil, nil
	}
}

// ---------------------------------------------------------------- regexp (fragment)

type reAtom struct {
	ranges []rune // pairs lo,hi
	quant  byte   // '1' '+' '?' '*'
	group  int    // capture group index (0 = none)
}

type RegexV struct {
	Pattern string
	Atoms   []reAtom
	NGroups int
	Err     string
}

func (r *RegexV) Copy() Value { return r }

func parseRegexFragment(pat string) *RegexV {
	rv := &RegexV{Pattern: pat}
	re, err := syntax.Parse(pat, syntax.Perl)
	if err != nil {
		rv.Err = err.Error()
		return rv
	}
	re = re.Simplify()
	var addClass func(x *syntax.Regexp, q byte, g int) bool
	addClass = func(x *syntax.Regexp, q byte, g int) bool {
		switch x.Op {
		case syntax.OpCharClass:
			rv.Atoms = append(rv.Atoms, reAtom{ranges: append([]rune{}, x.Rune...), quant: q, group: g})
			return true
		case syntax.OpLiteral:
			if q != '1' && len(x.Rune) != 1 {
				return false
			}
			for _, r := range x.Rune {
				rv.Atoms = append(rv.Atoms, reAtom{ranges: []rune{r, r}, quant: q, group: g})
			}
			return true
		}
		return false
	}
	var walk func(x *syntax.Regexp, g int) bool
	walk = func(x *syntax.Regexp, g int) bool {
		switch x.Op {
		case syntax.OpConcat:
			for _, s := range x.Sub {
				if !walk(s, g) {
					return false
				}
			}
			return true
		case syntax.OpCapture:
			if g != 0 {
				return false
			}
			if x.Cap > rv.NGroups {
				rv.NGroups = x.Cap
			}
			return walk(x.Sub[0], x.Cap)
		case syntax.OpPlus:
			return addClass(x.Sub[0], '+', g)
		case syntax.OpStar:
			return addClass(x.Sub[0], '*', g)
		case syntax.OpQuest:
			return addClass(x.Sub[0], '?', g)
		case syntax.OpCharClass, syntax.OpLiteral:
			return addClass(x, '1', g)
		case syntax.OpEmptyMatch:
			return true
		}
		return false
	}
	if !walk(re, 0) {
		rv.Err = "pattern outside the modelled fragment (concatenation of capture groups over byte classes with + ? *)"
		return rv
	}
	// pairwise disjoint classes => maximal munch is leftmost-first greedy matching
	for i := range rv.Atoms {
		for _, r := range rv.Atoms[i].ranges {
			if r > 0x7f {
				rv.Err = "non-ASCII class"
				return rv
			}
		}
		for j := i + 1; j < len(rv.Atoms); j++ {
			if classesOverlap(rv.Atoms[i].ranges, rv.Atoms[j].ranges) {
				rv.Err = "overlapping classes (backtracking semantics not modelled)"
				return rv
			}
		}
	}
	if len(rv.Atoms) == 0 || (rv.Atoms[0].quant != '+' && rv.Atoms[0].quant != '1') {
		rv.Err = "first atom must consume at least one character"
	}
	return rv
}

func classesOverlap(a, b []rune) bool {
	for i := 0; i+1 < len(a); i += 2 {
		for j := 0; j+1 < len(b); j += 2 {
			if a[i] <= b[j+1] && b[j] <= a[i+1] {
				return true
			}
		}
	}
	return false
}

func modelRegexpCompile(ex *Exec, s *State, cc *ssa.CallCommon, a []Value) (Value, *Fork, error) {
	sv, ok := a[0].(StringV)
	pat, ok2 := sv.Concrete()
	if !ok || !ok2 {
		return nil, nil, unsupported("regexp.MustCompile of non-constant pattern")
	}
	rv := parseRegexFragment(pat)
	id := ex.newObject(s, rv, nil)
	return Ptr{Obj: id}, nil, nil
}

func (ex *Exec) inClass(b *Term, ranges []rune) *Term {
	c := ex.Ctx
	var alts []*Term
	for i := 0; i+1 < len(ranges); i += 2 {
		lo, hi := uint64(ranges[i]), uint64(ranges[i+1])
		if lo == hi {
			alts = append(alts, c.Eq(b, c.BV(8, lo)))
		} else {
			alts = append(alts, c.BAnd(c.Cmp(OUle, c.BV(8, lo), b), c.Cmp(OUle, b, c.BV(8, hi))))
		}
	}
	return c.BOr(alts...)
}

type reMatcher struct {
	ex   *Exec
	rv   *RegexV
	s    []*Term
	memo map[[3]int]*Term
}

// poss(i,pos,inStar): a match of atoms[i:] is possible starting at pos.
func (m *reMatcher) poss(i, pos int, inStar bool) *Term {
	c := m.ex.Ctx
	if i == len(m.rv.Atoms) {
		return c.True()
	}
	k := [3]int{i, pos, 0}
	if inStar {
		k[2] = 1
	}
	if t, ok := m.memo[k]; ok {
		return t
	}
	at := m.rv.Atoms[i]
	var here *Term = c.False()
	if pos < len(m.s) {
		here = m.ex.inClass(m.s[pos], at.ranges)
	}
	var res *Term
	if inStar {
		if pos < len(m.s) {
			res = c.Ite(here, m.poss(i, pos+1, true), m.poss(i+1, pos, false))
		} else {
			res = m.poss(i+1, pos, false)
		}
	} else {
		switch at.quant {
		case '1':
			if pos < len(m.s) {
				res = c.BAnd(here, m.poss(i+1, pos+1, false))
			} else {
				res = c.False()
			}
		case '?':
			if pos < len(m.s) {
				res = c.Ite(here, m.poss(i+1, pos+1, false), m.poss(i+1, pos, false))
			} else {
				res = m.poss(i+1, pos, false)
			}
		case '+':
			if pos < len(m.s) {
				res = c.BAnd(here, m.poss(i, pos+1, true))
			} else {
				res = c.False()
			}
		case '*':
			res = m.poss(i, pos, true)
			m.memo[k] = res
			return res
		}
	}
	m.memo[k] = res
	return res
}

// enumerate all (start, lengths) alternatives of the maximal-munch match.
func (m *reMatcher) alts(start int) []struct {
	cond *Term
	ends []int
} {
	c := m.ex.Ctx
	type alt = struct {
		cond *Term
		ends []int
	}
	var out []alt
	var rec func(i, pos int, cond []*Term, ends []int)
	rec = func(i, pos int, cond []*Term, ends []int) {
		if i == len(m.rv.Atoms) {
			out = append(out, alt{cond: c.BAnd(cond...), ends: append([]int{}, ends...)})
			return
		}
		at := m.rv.Atoms[i]
		minK, maxK := 0, len(m.s)-pos
		switch at.quant {
		case '1':
			minK, maxK = 1, 1
		case '?':
			maxK = 1
		case '+':
			minK = 1
		}
		if maxK > len(m.s)-pos {
			maxK = len(m.s) - pos
		}
		for k := minK; k <= maxK; k++ {
			cc := append([]*Term{}, cond...)
			for j := 0; j < k; j++ {
				cc = append(cc, m.ex.inClass(m.s[pos+j], at.ranges))
			}
			// maximality: stopped because of the quantifier limit, the end, or a non-class char
			limit := (at.quant == '1' || at.quant == '?') && k == 1
			if !limit && pos+k < len(m.s) {
				cc = append(cc, c.BNot(m.ex.inClass(m.s[pos+k], at.ranges)))
			}
			rec(i+1, pos+k, cc, append(ends, pos+k))
		}
	}
	rec(0, start, nil, nil)
	return out
}

func regexArg(ex *Exec, s *State, a []Value) (*RegexV, StringV, error) {
	p, ok := a[0].(Ptr)
	if !ok || p.Obj == 0 {
		return nil, StringV{}, &goPanic{"nil *regexp.Regexp"}
	}
	rv, ok := s.Heap[p.Obj].V.(*RegexV)
	if !ok {
		return nil, StringV{}, unsupported("regexp object is not a modelled Regexp")
	}
	if rv.Err != "" {
		return nil, StringV{}, unsupported("regexp %q: %s", rv.Pattern, rv.Err)
	}
	sv := a[1].(StringV)
	if err := ex.requireASCII(s, sv.B, "regexp matching"); err != nil {
		return nil, StringV{}, err
	}
	return rv, sv, nil
}

func modelFindStringSubmatch(ex *Exec, s *State, cc *ssa.CallCommon, a []Value) (Value, *Fork, error) {
	rv, sv, err := regexArg(ex, s, a)
	if err != nil {
		return nil, nil, err
	}
	c := ex.Ctx
	m := &reMatcher{ex: ex, rv: rv, s: sv.B, memo: map[[3]int]*Term{}}
	f := &Fork{}
	var noEarlier []*Term
	strT := types.Typ[types.String]
	for p := 0; p < len(sv.B); p++ {
		for _, al := range m.alts(p) {
			cond := c.BAnd(append(append([]*Term{}, noEarlier...), al.cond)...)
			if cond.IsFalse() {
				continue
			}
			// build [whole, group1..]
			end := p
			if len(al.ends) > 0 {
				end = al.ends[len(al.ends)-1]
			}
			gs := make([]Value, rv.NGroups+1)
			gs[0] = StringV{B: sv.B[p:end]}
			gstart := make([]int, rv.NGroups+1)
			gend := make([]int, rv.NGroups+1)
			for g := range gstart {
				gstart[g] = -1
			}
			pos := p
			for i, at := range rv.Atoms {
				if at.group > 0 {
					if gstart[at.group] < 0 {
						gstart[at.group] = pos
					}
					gend[at.group] = al.ends[i]
				}
				pos = al.ends[i]
			}
			for g := 1; g <= rv.NGroups; g++ {
				if gstart[g] >= 0 {
					gs[g] = StringV{B: sv.B[gstart[g]:gend[g]]}
				} else {
					gs[g] = StringV{}
				}
			}
			av := &ArrayV{E: gs}
			alt := Alt{Cond: cond}
			alt.Ret = lazySlice{av: av, n: len(gs), et: strT}
			f.Alts = append(f.Alts, alt)
		}
		noEarlier = append(noEarlier, c.BNot(m.poss(0, p, false)))
	}
	f.Alts = append(f.Alts, Alt{Cond: c.BAnd(noEarlier...), Ret: SliceV{}})
	// materialise slices (objects must be created in the forked states; here all alternatives
	// may share objects created in the parent because they are immutable results)
	for i := range f.Alts {
		if ls, ok := f.Alts[i].Ret.(lazySlice); ok {
			id := ex.newObject(s, ls.av, types.NewArray(ls.et, int64(ls.n)))
			f.Alts[i].Ret = SliceV{Obj: id, Len: ls.n, Cap: ls.n}
		}
	}
	return nil, f, nil
}

type lazySlice struct {
	av *ArrayV
	n  int
	et types.Type
}

func modelRegexpMatchString(ex *Exec, s *State, cc *ssa.CallCommon, a []Value) (Value, *Fork, error) {
	rv, sv, err := regexArg(ex, s, a)
	if err != nil {
		return nil, nil, err
	}
	c := ex.Ctx
	m := &reMatcher{ex: ex, rv: rv, s: sv.B, memo: map[[3]int]*Term{}}
	var any []*Term
	for p := 0; p < len(sv.B); p++ {
		any = append(any, m.poss(0, p, false))
	}
	return c.BOr(any...), nil, nil
}

var _ = fmt.Sprintf
