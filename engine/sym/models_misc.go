package sym

func registerMiscModels(ex *Exec) {}
