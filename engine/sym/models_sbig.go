package sym

import (
	"fmt"
	"math/big"

	"golang.org/x/tools/go/ssa"
)

// Signed bit-vector model of math/big.Int ("sbv W"): values are two's complement words of
// width W; every result carries an exact interval [Min, Max] computed from the operands'
// intervals, and the run stops (UNSUPPORTED) if an interval leaves the representable range,
// so wrap-around can never be mistaken for big.Int arithmetic.

func (ex *Exec) bigIsSigned() bool { return ex.BigMode == "sbv" }

func (b *BigV) min() *big.Int {
	if b.Min != nil {
		return b.Min
	}
	return new(big.Int)
}

func (ex *Exec) sbig(t *Term, lo, hi *big.Int) (*BigV, error) {
	w := ex.bigW()
	limLo := new(big.Int).Neg(pow2(w - 1))
	limHi := new(big.Int).Sub(pow2(w-1), bigOne)
	if lo.Cmp(limLo) < 0 || hi.Cmp(limHi) > 0 {
		return nil, unsupported("big.Int (signed bit-vector model): result interval [%s, %s] does not fit %d bits", lo, hi, w)
	}
	return &BigV{T: t, Min: lo, Max: hi, MaxBits: hi.BitLen()}, nil
}

func minMax(vs ...*big.Int) (*big.Int, *big.Int) {
	lo, hi := vs[0], vs[0]
	for _, v := range vs[1:] {
		if v.Cmp(lo) < 0 {
			lo = v
		}
		if v.Cmp(hi) > 0 {
			hi = v
		}
	}
	return lo, hi
}

func registerSignedBigModels(ex *Exec) {
	m := ex.Models
	wrap2 := func(name string, f func(ex *Exec, s *State, x, y *BigV) (*BigV, error)) {
		old := m[name]
		m[name] = func(ex *Exec, s *State, cc *ssa.CallCommon, a []Value) (Value, *Fork, error) {
			if !ex.bigIsSigned() {
				return old(ex, s, cc, a)
			}
			x, err := ex.bigGet(s, a[1])
			if err != nil {
				return nil, nil, err
			}
			y, err := ex.bigGet(s, a[2])
			if err != nil {
				return nil, nil, err
			}
			r, err := f(ex, s, x, y)
			if err != nil {
				return nil, nil, err
			}
			return ex.bigSet(s, a[0], r)
		}
	}
	wrap2("(*math/big.Int).Add", func(ex *Exec, s *State, x, y *BigV) (*BigV, error) {
		return ex.sbig(ex.Ctx.Add(x.T, y.T), new(big.Int).Add(x.min(), y.min()), new(big.Int).Add(x.max(), y.max()))
	})
	wrap2("(*math/big.Int).Sub", func(ex *Exec, s *State, x, y *BigV) (*BigV, error) {
		return ex.sbig(ex.Ctx.Sub(x.T, y.T), new(big.Int).Sub(x.min(), y.max()), new(big.Int).Sub(x.max(), y.min()))
	})
	wrap2("(*math/big.Int).Mul", func(ex *Exec, s *State, x, y *BigV) (*BigV, error) {
		lo, hi := minMax(new(big.Int).Mul(x.min(), y.min()), new(big.Int).Mul(x.min(), y.max()), new(big.Int).Mul(x.max(), y.min()), new(big.Int).Mul(x.max(), y.max()))
		// multiply at full width W (no narrowing: signed operands)
		return ex.sbig(ex.Ctx.bin(OMul, x.T.S, x.T, y.T), lo, hi)
	})
	wrap2("(*math/big.Int).Mod", func(ex *Exec, s *State, x, y *BigV) (*BigV, error) {
		// Euclidean modulus, y > 0 required
		if y.min().Sign() <= 0 {
			return nil, unsupported("big.Int.Mod with a possibly non-positive modulus")
		}
		c := ex.Ctx
		w := ex.bigW()
		r := c.bin(OSRem, x.T.S, x.T, y.T)
		fix := c.Ite(c.Cmp(OSlt, r, c.BV(w, 0)), c.Add(r, y.T), r)
		if x.T.IsConst() && y.T.IsConst() {
			v := new(big.Int).Mod(c.signedBig(x.T), c.signedBig(y.T))
			return ex.sbig(c.BVBig(w, v), v, v)
		}
		return ex.sbig(fix, new(big.Int), new(big.Int).Sub(y.max(), bigOne))
	})
	oldLsh := m["(*math/big.Int).Lsh"]
	m["(*math/big.Int).Lsh"] = func(ex *Exec, s *State, cc *ssa.CallCommon, a []Value) (Value, *Fork, error) {
		if !ex.bigIsSigned() {
			return oldLsh(ex, s, cc, a)
		}
		x, err := ex.bigGet(s, a[1])
		if err != nil {
			return nil, nil, err
		}
		k, err := constShift(a[2])
		if err != nil {
			return nil, nil, err
		}
		r, err := ex.sbig(ex.Ctx.BVOp(OShl, x.T, ex.Ctx.BV(ex.bigW(), uint64(k))), new(big.Int).Lsh(x.min(), uint(k)), new(big.Int).Lsh(x.max(), uint(k)))
		if err != nil {
			return nil, nil, err
		}
		return ex.bigSet(s, a[0], r)
	}
	oldSign := m["(*math/big.Int).Sign"]
	m["(*math/big.Int).Sign"] = func(ex *Exec, s *State, cc *ssa.CallCommon, a []Value) (Value, *Fork, error) {
		if !ex.bigIsSigned() {
			return oldSign(ex, s, cc, a)
		}
		x, err := ex.bigGet(s, a[0])
		if err != nil {
			return nil, nil, err
		}
		c := ex.Ctx
		z := c.BV(ex.bigW(), 0)
		return c.Ite(c.Cmp(OSlt, x.T, z), c.BV(64, ^uint64(0)), c.Ite(c.Eq(x.T, z), c.BV(64, 0), c.BV(64, 1))), nil, nil
	}
	oldCmp := m["(*math/big.Int).Cmp"]
	m["(*math/big.Int).Cmp"] = func(ex *Exec, s *State, cc *ssa.CallCommon, a []Value) (Value, *Fork, error) {
		if !ex.bigIsSigned() {
			return oldCmp(ex, s, cc, a)
		}
		x, err := ex.bigGet(s, a[0])
		if err != nil {
			return nil, nil, err
		}
		y, err := ex.bigGet(s, a[1])
		if err != nil {
			return nil, nil, err
		}
		c := ex.Ctx
		return c.Ite(c.Cmp(OSlt, x.T, y.T), c.BV(64, ^uint64(0)), c.Ite(c.Eq(x.T, y.T), c.BV(64, 0), c.BV(64, 1))), nil, nil
	}
	oldInv := m["(*math/big.Int).ModInverse"]
	m["(*math/big.Int).ModInverse"] = func(ex *Exec, s *State, cc *ssa.CallCommon, a []Value) (Value, *Fork, error) {
		if !ex.bigIsSigned() {
			return oldInv(ex, s, cc, a)
		}
		g, err := ex.bigGet(s, a[1])
		if err != nil {
			return nil, nil, err
		}
		n, err := ex.bigGet(s, a[2])
		if err != nil {
			return nil, nil, err
		}
		if !n.T.IsConst() {
			return nil, nil, unsupported("big.Int.ModInverse with a symbolic modulus")
		}
		c := ex.Ctx
		nv := c.signedBig(n.T)
		if nv.Sign() <= 0 || !nv.ProbablyPrime(20) {
			return nil, nil, unsupported("big.Int.ModInverse: modulus must be a positive prime in this model")
		}
		w := ex.bigW()
		// g mod n (Euclidean)
		r := c.bin(OSRem, g.T.S, g.T, n.T)
		gm := c.Ite(c.Cmp(OSlt, r, c.BV(w, 0)), c.Add(r, n.T), r)
		if new(big.Int).Mul(nv, nv).BitLen() >= w {
			return nil, nil, unsupported("big.Int.ModInverse: modulus too wide for the model width")
		}
		ex.invCount++
		inv := c.Var(fmt.Sprintf("modinv!%d", ex.invCount), SBV(w))
		zero := c.Eq(gm, c.BV(w, 0))
		prod := c.bin(OURem, gm.S, c.bin(OMul, gm.S, gm, inv), n.T)
		ok := c.BAnd(c.Cmp(OSlt, c.BV(w, 0), inv), c.Cmp(OSlt, inv, n.T), c.Eq(prod, c.BV(w, 1)))
		f := &Fork{}
		f.Alts = append(f.Alts, Alt{Cond: zero, Ret: Ptr{}})
		f.Alts = append(f.Alts, Alt{Cond: c.BAnd(c.BNot(zero), ok), Ret: lazyBigSet{recv: a[0], v: &BigV{T: inv, Min: bigOne, Max: new(big.Int).Sub(nv, bigOne), MaxBits: nv.BitLen()}}})
		return nil, f, nil
	}
}
