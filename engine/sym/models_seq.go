package sym

import (
	"go/types"

	"golang.org/x/tools/go/ssa"
)

// Sequential-schedule models for the goroutine plumbing of pow.Mine (C11/C12).
//
// They execute ONE legal schedule of the program, nothing more:
//   * `go f(...)` runs f to completion at the go statement (the goroutine is scheduled immediately and
//     not pre-empted), unless f's own body contains a select — such a goroutine (Mine's cancellation
//     watcher) is never scheduled before the spawning function returns, i.e. the context is not cancelled;
//   * buffered channels are FIFO queues; an operation that would block under this schedule stops the run
//     (UNSUPPORTED), it is never guessed;
//   * sync.WaitGroup is a counter; Wait with a non-zero counter stops the run.
// No claim about other schedules is derived from runs that use these models (property C13 stays n/a).

type ChanV struct {
	Buf    []Value
	Cap    int
	Closed bool
}

func (c *ChanV) Copy() Value {
	n := *c
	n.Buf = append([]Value{}, c.Buf...)
	return &n
}

func (c *ChanV) Identical(o Value) bool {
	x, ok := o.(*ChanV)
	if !ok || x.Cap != c.Cap || x.Closed != c.Closed || len(x.Buf) != len(c.Buf) {
		return false
	}
	for i := range c.Buf {
		if !valuesIdentical(c.Buf[i], x.Buf[i]) {
			return false
		}
	}
	return true
}

func (ex *Exec) chanObj(s *State, v Value, write bool) (*ChanV, error) {
	p, ok := v.(Ptr)
	if !ok {
		return nil, unsupported("channel value %T", v)
	}
	if p.Obj == 0 {
		return nil, unsupported("operation on nil channel blocks forever")
	}
	var o *Object
	if write {
		o = ex.writable(s, p.Obj)
	} else {
		o = s.Heap[p.Obj]
	}
	c, ok := o.V.(*ChanV)
	if !ok {
		return nil, unsupported("channel object holds %T", o.V)
	}
	return c, nil
}

func (ex *Exec) makeChan(s *State, fr *Frame, x *ssa.MakeChan) (Value, error) {
	sz, err := ex.get(s, fr, x.Size)
	if err != nil {
		return nil, err
	}
	t, ok := sz.(*Term)
	if !ok || !t.IsConst() {
		return nil, unsupported("make(chan) with symbolic capacity")
	}
	id := ex.newObject(s, &ChanV{Cap: int(t.U)}, x.Type())
	ex.Funcs["model:chan(sequential FIFO)"] = true
	return Ptr{Obj: id}, nil
}

func (ex *Exec) chanSend(s *State, ch, v Value) error {
	c, err := ex.chanObj(s, ch, true)
	if err != nil {
		return err
	}
	if c.Closed {
		return &goPanic{"send on closed channel"}
	}
	if len(c.Buf) >= c.Cap {
		return unsupported("channel send would block under the sequential schedule (buffer %d full)", c.Cap)
	}
	c.Buf = append(c.Buf, v)
	return nil
}

func (ex *Exec) chanRecv(s *State, ch Value, elem types.Type, commaOk bool) (Value, error) {
	c, err := ex.chanObj(s, ch, true)
	if err != nil {
		return nil, err
	}
	var v Value
	ok := true
	switch {
	case len(c.Buf) > 0:
		v = c.Buf[0]
		c.Buf = append([]Value{}, c.Buf[1:]...)
	case c.Closed:
		v, ok = ex.zero(elem), false
	default:
		return nil, unsupported("channel receive would block under the sequential schedule")
	}
	if commaOk {
		okT := ex.Ctx.False()
		if ok {
			okT = ex.Ctx.True()
		}
		return TupleV{v, okT}, nil
	}
	return v, nil
}

func (ex *Exec) chanClose(s *State, ch Value) error {
	c, err := ex.chanObj(s, ch, true)
	if err != nil {
		return err
	}
	if c.Closed {
		return &goPanic{"close of closed channel"}
	}
	c.Closed = true
	return nil
}

// hasSelect: the function's own body contains a select statement.
func hasSelect(fn *ssa.Function) bool {
	for _, b := range fn.Blocks {
		for _, in := range b.Instrs {
			if _, ok := in.(*ssa.Select); ok {
				return true
			}
		}
	}
	return false
}

func registerSeqModels(ex *Exec) {
	m := ex.Models
	// the counter lives in the WaitGroup's own `sema` word (field 2), which the real implementation
	// only uses for parking; the struct is never inspected by the code under test
	ctr := func(a Value) (Ptr, error) {
		p, ok := a.(Ptr)
		if !ok || p.Obj == 0 {
			return Ptr{}, &goPanic{"nil *sync.WaitGroup"}
		}
		return Ptr{Obj: p.Obj, Path: appendPath(p.Path, PE{I: 2})}, nil
	}
	add := func(ex *Exec, s *State, a Value, d *Term) error {
		p, err := ctr(a)
		if err != nil {
			return err
		}
		v, err := ex.load(s, p)
		if err != nil {
			return err
		}
		t, ok := v.(*Term)
		if !ok || !t.IsConst() || !d.IsConst() {
			return unsupported("sync.WaitGroup with symbolic counter")
		}
		n := int32(uint32(t.U)) + int32(uint32(d.U))
		if n < 0 {
			return &goPanic{"sync: negative WaitGroup counter"}
		}
		ex.Funcs["model:sync.WaitGroup(counter)"] = true
		return ex.store(s, p, ex.Ctx.BV(32, uint64(uint32(n))))
	}
	m["(*sync.WaitGroup).Add"] = func(ex *Exec, s *State, cc *ssa.CallCommon, a []Value) (Value, *Fork, error) {
		return nil, nil, add(ex, s, a[0], a[1].(*Term))
	}
	m["(*sync.WaitGroup).Done"] = func(ex *Exec, s *State, cc *ssa.CallCommon, a []Value) (Value, *Fork, error) {
		return nil, nil, add(ex, s, a[0], ex.Ctx.BV(64, ^uint64(0)))
	}
	m["(*sync.WaitGroup).Wait"] = func(ex *Exec, s *State, cc *ssa.CallCommon, a []Value) (Value, *Fork, error) {
		p, err := ctr(a[0])
		if err != nil {
			return nil, nil, err
		}
		v, err := ex.load(s, p)
		if err != nil {
			return nil, nil, err
		}
		if t, ok := v.(*Term); !ok || !t.IsConst() || t.U != 0 {
			return nil, nil, unsupported("sync.WaitGroup.Wait would block under the sequential schedule")
		}
		return nil, nil, nil
	}
	// uncontended mutexes (single thread of control)
	for _, n := range []string{"(*sync.Mutex).Lock", "(*sync.Mutex).Unlock", "(*sync.RWMutex).Lock", "(*sync.RWMutex).Unlock", "(*sync.RWMutex).RLock", "(*sync.RWMutex).RUnlock"} {
		m[n] = func(ex *Exec, s *State, cc *ssa.CallCommon, a []Value) (Value, *Fork, error) { return nil, nil, nil }
	}
}
