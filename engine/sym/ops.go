package sym

import (
	"fmt"
	"go/token"
	"go/types"
	"math"
	"unicode/utf8"

	"golang.org/x/tools/go/ssa"
)

func (ex *Exec) unop(s *State, x *ssa.UnOp, v Value) (Value, error) {
	c := ex.Ctx
	switch x.Op {
	case token.MUL: // load
		p, ok := v.(Ptr)
		if !ok {
			return nil, &execError{fmt.Sprintf("INTERNAL deref of %T", v)}
		}
		if p.Obj == 0 {
			return nil, &goPanic{"nil pointer dereference"}
		}
		if g, isG := x.X.(*ssa.Global); isG && !s.Lenient {
			if why, bad := ex.suspect[g.Pkg]; bad {
				return nil, unsupported("read of global %s whose package init was not completed (%s)", g.Name(), why)
			}
		}
		return ex.load(s, p)
	case token.NOT:
		return c.BNot(v.(*Term)), nil
	case token.SUB:
		t := v.(*Term)
		if isFloat(x.X.Type()) {
			return ex.floatUn("fneg", t), nil
		}
		return c.Neg(t), nil
	case token.XOR:
		return c.Not(v.(*Term)), nil
	case token.ARROW:
		return ex.chanRecv(s, v, x.X.Type().Underlying().(*types.Chan).Elem(), x.CommaOk)
	}
	return nil, unsupported("unop %s", x.Op)
}

func (ex *Exec) floatUn(name string, a *Term) *Term {
	if a.IsConst() && a.S.W == 64 && name == "fneg" {
		return ex.Ctx.BV(64, math.Float64bits(-math.Float64frombits(a.U)))
	}
	return ex.Ctx.App(fmt.Sprintf("%s%d", name, a.S.W), a.S, a)
}

func (ex *Exec) floatBin(op token.Token, a, b *Term) (Value, error) {
	c := ex.Ctx
	if a.IsConst() && b.IsConst() && a.S.W == 64 {
		x, y := math.Float64frombits(a.U), math.Float64frombits(b.U)
		switch op {
		case token.ADD:
			return c.BV(64, math.Float64bits(x+y)), nil
		case token.SUB:
			return c.BV(64, math.Float64bits(x-y)), nil
		case token.MUL:
			return c.BV(64, math.Float64bits(x*y)), nil
		case token.QUO:
			return c.BV(64, math.Float64bits(x/y)), nil
		case token.EQL:
			return c.Bool(x == y), nil
		case token.NEQ:
			return c.Bool(x != y), nil
		case token.LSS:
			return c.Bool(x < y), nil
		case token.LEQ:
			return c.Bool(x <= y), nil
		case token.GTR:
			return c.Bool(x > y), nil
		case token.GEQ:
			return c.Bool(x >= y), nil
		}
	}
	if a.Op == OIte && b.IsConst() {
		if r := c.LiftIte(a, func(leaf *Term) *Term {
			v, _ := ex.floatBin(op, leaf, b)
			return v.(*Term)
		}); r != nil {
			return r, nil
		}
	}
	if b.Op == OIte && a.IsConst() {
		if r := c.LiftIte(b, func(leaf *Term) *Term {
			v, _ := ex.floatBin(op, a, leaf)
			return v.(*Term)
		}); r != nil {
			return r, nil
		}
	}
	if a.Op == OIte && !b.IsConst() && b.Op != OIte {
		// f(ite-tree of constants, symbolic): lift as well (comparisons against a symbolic bound)
		if r := c.LiftIte(a, func(leaf *Term) *Term {
			v, _ := ex.floatBin(op, leaf, b)
			return v.(*Term)
		}); r != nil {
			return r, nil
		}
	}
	w := a.S.W
	switch op {
	case token.ADD:
		return c.App(fmt.Sprintf("fadd%d", w), a.S, a, b), nil
	case token.SUB:
		return c.App(fmt.Sprintf("fsub%d", w), a.S, a, b), nil
	case token.MUL:
		return c.App(fmt.Sprintf("fmul%d", w), a.S, a, b), nil
	case token.QUO:
		return c.App(fmt.Sprintf("fdiv%d", w), a.S, a, b), nil
	case token.EQL:
		return c.App(fmt.Sprintf("feq%d", w), SBool, a, b), nil
	case token.NEQ:
		return c.BNot(c.App(fmt.Sprintf("feq%d", w), SBool, a, b)), nil
	case token.LSS:
		return c.App(fmt.Sprintf("flt%d", w), SBool, a, b), nil
	case token.LEQ:
		return c.App(fmt.Sprintf("fle%d", w), SBool, a, b), nil
	case token.GTR:
		return c.App(fmt.Sprintf("flt%d", w), SBool, b, a), nil
	case token.GEQ:
		return c.App(fmt.Sprintf("fle%d", w), SBool, b, a), nil
	}
	return nil, unsupported("float op %s", op)
}

func (ex *Exec) shiftAmount(y *Term, w int) *Term {
	c := ex.Ctx
	if y.S.W == w {
		return y
	}
	if y.S.W < w {
		return c.ZExt(y, w)
	}
	// wider count: saturate
	big := c.Cmp(OUle, c.BV(y.S.W, uint64(w)), y)
	return c.Ite(big, c.BV(w, uint64(w)), c.Extract(y, w-1, 0))
}

func (ex *Exec) binop(op token.Token, tx, ty types.Type, a, b Value) (Value, error) {
	c := ex.Ctx
	switch x := a.(type) {
	case *Term:
		y, ok := b.(*Term)
		if !ok {
			return nil, &execError{fmt.Sprintf("INTERNAL binop %s on %T and %T", op, a, b)}
		}
		if x.S.K == KBool {
			switch op {
			case token.EQL:
				return c.Eq(x, y), nil
			case token.NEQ:
				return c.BNot(c.Eq(x, y)), nil
			case token.AND, token.LAND:
				return c.BAnd(x, y), nil
			case token.OR, token.LOR:
				return c.BOr(x, y), nil
			}
			return nil, unsupported("bool op %s", op)
		}
		if isFloat(tx) {
			return ex.floatBin(op, x, y)
		}
		signed := isSigned(tx)
		switch op {
		case token.ADD:
			return c.Add(x, y), nil
		case token.SUB:
			return c.Sub(x, y), nil
		case token.MUL:
			return c.Mul(x, y), nil
		case token.QUO:
			if signed {
				return c.BVOp(OSDiv, x, y), nil
			}
			return c.BVOp(OUDiv, x, y), nil
		case token.REM:
			if signed {
				return c.BVOp(OSRem, x, y), nil
			}
			return c.BVOp(OURem, x, y), nil
		case token.AND:
			return c.And(x, y), nil
		case token.OR:
			return c.Or(x, y), nil
		case token.XOR:
			return c.Xor(x, y), nil
		case token.AND_NOT:
			return c.And(x, c.Not(y)), nil
		case token.SHL:
			return c.BVOp(OShl, x, ex.shiftAmount(y, x.S.W)), nil
		case token.SHR:
			if signed {
				return c.BVOp(OAShr, x, ex.shiftAmount(y, x.S.W)), nil
			}
			return c.BVOp(OLShr, x, ex.shiftAmount(y, x.S.W)), nil
		case token.EQL:
			return c.Eq(x, y), nil
		case token.NEQ:
			return c.BNot(c.Eq(x, y)), nil
		case token.LSS:
			if signed {
				return c.Cmp(OSlt, x, y), nil
			}
			return c.Cmp(OUlt, x, y), nil
		case token.LEQ:
			if signed {
				return c.Cmp(OSle, x, y), nil
			}
			return c.Cmp(OUle, x, y), nil
		case token.GTR:
			if signed {
				return c.Cmp(OSlt, y, x), nil
			}
			return c.Cmp(OUlt, y, x), nil
		case token.GEQ:
			if signed {
				return c.Cmp(OSle, y, x), nil
			}
			return c.Cmp(OUle, y, x), nil
		}
		return nil, unsupported("int op %s", op)
	case StringV:
		y, ok := b.(StringV)
		if !ok {
			return nil, &execError{"INTERNAL string binop with non-string"}
		}
		switch op {
		case token.ADD:
			nb := make([]*Term, 0, len(x.B)+len(y.B))
			nb = append(append(nb, x.B...), y.B...)
			return StringV{B: nb}, nil
		case token.EQL:
			return ex.valuesEqual(x, y)
		case token.NEQ:
			e, err := ex.valuesEqual(x, y)
			if err != nil {
				return nil, err
			}
			return c.BNot(e), nil
		case token.LSS, token.LEQ, token.GTR, token.GEQ:
			return ex.strCompare(op, x, y), nil
		}
	}
	switch op {
	case token.EQL:
		return ex.valuesEqual(a, b)
	case token.NEQ:
		e, err := ex.valuesEqual(a, b)
		if err != nil {
			return nil, err
		}
		return c.BNot(e), nil
	}
	return nil, unsupported("binop %s on %T", op, a)
}

// strCompare: lexicographic byte comparison as a term.
func (ex *Exec) strCompare(op token.Token, x, y StringV) *Term {
	c := ex.Ctx
	// lt(i): x[i:] < y[i:]
	n := len(x.B)
	if len(y.B) < n {
		n = len(y.B)
	}
	lt := c.Bool(len(x.B) < len(y.B)) // all common bytes equal
	eq := c.Bool(len(x.B) == len(y.B))
	for i := n - 1; i >= 0; i-- {
		bl := c.Cmp(OUlt, x.B[i], y.B[i])
		be := c.Eq(x.B[i], y.B[i])
		lt = c.BOr(bl, c.BAnd(be, lt))
		eq = c.BAnd(be, eq)
	}
	switch op {
	case token.LSS:
		return lt
	case token.LEQ:
		return c.BOr(lt, eq)
	case token.GTR:
		return c.BNot(c.BOr(lt, eq))
	default:
		return c.BNot(lt)
	}
}

func (ex *Exec) valuesEqual(a, b Value) (*Term, error) {
	c := ex.Ctx
	switch x := a.(type) {
	case nil:
		return c.Bool(b == nil), nil
	case *Term:
		y, ok := b.(*Term)
		if !ok || x.S != y.S {
			return c.False(), nil
		}
		return c.Eq(x, y), nil
	case StringV:
		y, ok := b.(StringV)
		if !ok || len(x.B) != len(y.B) {
			return c.False(), nil
		}
		parts := make([]*Term, len(x.B))
		for i := range x.B {
			parts[i] = c.Eq(x.B[i], y.B[i])
		}
		return c.BAnd(parts...), nil
	case Ptr:
		y, ok := b.(Ptr)
		if !ok {
			return c.False(), nil
		}
		if x.Obj != y.Obj || len(x.Path) != len(y.Path) {
			return c.False(), nil
		}
		for i := range x.Path {
			if x.Path[i].Sym != nil || y.Path[i].Sym != nil {
				return nil, unsupported("comparison of symbolic-index pointers")
			}
			if x.Path[i].I != y.Path[i].I {
				return c.False(), nil
			}
		}
		return c.True(), nil
	case IfaceV:
		y, ok := b.(IfaceV)
		if !ok {
			return c.False(), nil
		}
		if x.T == nil || y.T == nil {
			return c.Bool(x.T == nil && y.T == nil), nil
		}
		if !types.Identical(x.T, y.T) {
			return c.False(), nil
		}
		return ex.valuesEqual(x.V, y.V)
	case *StructV:
		y, ok := b.(*StructV)
		if !ok || len(x.F) != len(y.F) {
			return c.False(), nil
		}
		parts := []*Term{}
		for i := range x.F {
			e, err := ex.valuesEqual(x.F[i], y.F[i])
			if err != nil {
				return nil, err
			}
			parts = append(parts, e)
		}
		return c.BAnd(parts...), nil
	case *ArrayV:
		y, ok := b.(*ArrayV)
		if !ok || len(x.E) != len(y.E) {
			return c.False(), nil
		}
		parts := []*Term{}
		for i := range x.E {
			e, err := ex.valuesEqual(x.E[i], y.E[i])
			if err != nil {
				return nil, err
			}
			parts = append(parts, e)
		}
		return c.BAnd(parts...), nil
	case SliceV:
		y, ok := b.(SliceV)
		if !ok {
			return c.False(), nil
		}
		if y.Obj == 0 && y.Len == 0 {
			return c.Bool(x.Obj == 0), nil
		}
		if x.Obj == 0 && x.Len == 0 {
			return c.Bool(y.Obj == 0), nil
		}
		return nil, unsupported("slice comparison")
	case MapV:
		y, _ := b.(MapV)
		return c.Bool(x.Obj == 0 && y.Obj == 0), nil
	case *FuncV:
		y, _ := b.(*FuncV)
		return c.Bool(x == nil && y == nil), nil
	case eqer:
		return x.EqualTerm(ex, b)
	}
	return nil, unsupported("equality on %T", a)
}

type eqer interface {
	EqualTerm(ex *Exec, other Value) (*Term, error)
}

func (ex *Exec) convert(s *State, from, to types.Type, v Value) (Value, error) {
	c := ex.Ctx
	fu, tu := from.Underlying(), to.Underlying()
	if t, ok := v.(*Term); ok && t.S.K == KBV {
		if tb, ok := tu.(*types.Basic); ok {
			if tb.Info()&types.IsString != 0 {
				// integer -> string (rune)
				if t.IsConst() {
					return ex.strConst(string(rune(t.SInt64()))), nil
				}
				lt := c.Cmp(OUlt, t, c.BV(t.S.W, 0x80))
				if r := ex.checkSat(s, c.BNot(lt)); r != Unsat {
					return nil, unsupported("rune->string of possibly non-ASCII symbolic value")
				}
				return StringV{B: []*Term{c.Extract(t, 7, 0)}}, nil
			}
			if tb.Kind() == types.UnsafePointer {
				return nil, unsupported("integer -> unsafe.Pointer")
			}
			so, ok := ex.scalarSort(to)
			if !ok {
				return nil, unsupported("convert to %s", to)
			}
			ff, tf := isFloat(from), isFloat(to)
			switch {
			case ff && tf:
				if t.S.W == so.W {
					return t, nil
				}
				if t.IsConst() && t.S.W == 32 {
					return c.BV(64, math.Float64bits(float64(math.Float32frombits(uint32(t.U))))), nil
				}
				if t.IsConst() {
					return c.BV(32, uint64(math.Float32bits(float32(math.Float64frombits(t.U))))), nil
				}
				return c.App(fmt.Sprintf("fcvt%dto%d", t.S.W, so.W), so, t), nil
			case ff && !tf:
				if t.IsConst() && t.S.W == 64 {
					f := math.Float64frombits(t.U)
					if isSigned(to) {
						return c.BV(so.W, uint64(int64(f))), nil
					}
					return c.BV(so.W, uint64(f)), nil
				}
				name := fmt.Sprintf("f%dtou%d", t.S.W, so.W)
				if isSigned(to) {
					name = fmt.Sprintf("f%dtoi%d", t.S.W, so.W)
				}
				return c.App(name, so, t), nil
			case !ff && tf:
				if t.Op == OIte {
					if r := c.LiftIte(t, func(leaf *Term) *Term {
						v, _ := ex.convert(s, from, to, leaf)
						return v.(*Term)
					}); r != nil {
						return r, nil
					}
				}
				if t.IsConst() && so.W == 64 {
					if isSigned(from) {
						return c.BV(64, math.Float64bits(float64(t.SInt64()))), nil
					}
					return c.BV(64, math.Float64bits(float64(t.U))), nil
				}
				name := fmt.Sprintf("u%dtof%d", t.S.W, so.W)
				if isSigned(from) {
					name = fmt.Sprintf("i%dtof%d", t.S.W, so.W)
				}
				return c.App(name, so, t), nil
			}
			if so.W == t.S.W {
				return t, nil
			}
			if so.W < t.S.W {
				return c.Extract(t, so.W-1, 0), nil
			}
			if isSigned(from) {
				return c.SExt(t, so.W), nil
			}
			return c.ZExt(t, so.W), nil
		}
	}
	switch x := v.(type) {
	case *Term: // bool
		return x, nil
	case StringV:
		if sl, ok := tu.(*types.Slice); ok {
			eb, _ := sl.Elem().Underlying().(*types.Basic)
			if eb != nil && eb.Kind() == types.Uint8 {
				return ex.newByteSlice(s, x.B), nil
			}
			if eb != nil && eb.Kind() == types.Int32 {
				// []rune(s): ASCII only
				out := make([]*Term, 0, len(x.B))
				for i := 0; i < len(x.B); {
					b := x.B[i]
					if b.IsConst() && b.U >= 0x80 {
						bs := []byte{}
						for k := i; k < len(x.B) && k < i+4 && x.B[k].IsConst(); k++ {
							bs = append(bs, byte(x.B[k].U))
						}
						r, sz := decodeRune(bs)
						out = append(out, c.BV(32, uint64(r)))
						i += sz
						continue
					}
					if !b.IsConst() {
						if r := ex.checkSat(s, c.Cmp(OUle, c.BV(8, 0x80), b)); r != Unsat {
							return nil, unsupported("[]rune of possibly non-ASCII symbolic string")
						}
					}
					out = append(out, c.ZExt(b, 32))
					i++
				}
				at := types.NewArray(sl.Elem(), int64(len(out)))
				av := &ArrayV{E: make([]Value, len(out))}
				for i := range out {
					av.E[i] = out[i]
				}
				id := ex.newObject(s, av, at)
				return SliceV{Obj: id, Len: len(out), Cap: len(out)}, nil
			}
		}
		if isString(to) {
			return x, nil
		}
	case SliceV:
		if isString(to) {
			elems, err := ex.sliceElems(s, x)
			if err != nil {
				return nil, err
			}
			et := fu.(*types.Slice).Elem().Underlying().(*types.Basic)
			if et.Kind() == types.Uint8 {
				out := make([]*Term, len(elems))
				for i, e := range elems {
					out[i] = e.(*Term)
				}
				return StringV{B: out}, nil
			}
			// []rune -> string
			var out []*Term
			for _, e := range elems {
				t := e.(*Term)
				if t.IsConst() {
					var buf [4]byte
					n := utf8.EncodeRune(buf[:], rune(t.SInt64()))
					for k := 0; k < n; k++ {
						out = append(out, c.BV(8, uint64(buf[k])))
					}
					continue
				}
				if r := ex.checkSat(s, c.Cmp(OUle, c.BV(32, 0x80), t)); r != Unsat {
					return nil, unsupported("string([]rune) with possibly non-ASCII symbolic rune")
				}
				out = append(out, c.Extract(t, 7, 0))
			}
			return StringV{B: out}, nil
		}
		return x, nil
	case Ptr:
		return x, nil
	}
	if types.Identical(fu, tu) {
		return v, nil
	}
	return nil, unsupported("convert %s -> %s (%T)", from, to, v)
}

func (ex *Exec) newByteSlice(s *State, bs []*Term) SliceV {
	av := &ArrayV{E: make([]Value, len(bs))}
	for i, b := range bs {
		av.E[i] = b
	}
	at := types.NewArray(types.Typ[types.Uint8], int64(len(bs)))
	id := ex.newObject(s, av, at)
	return SliceV{Obj: id, Len: len(bs), Cap: len(bs)}
}

func (ex *Exec) sliceArray(s *State, sl SliceV) (*ArrayV, error) {
	if sl.Obj == 0 {
		return &ArrayV{}, nil
	}
	o := s.Heap[sl.Obj]
	if o == nil {
		return nil, &execError{"INTERNAL dangling slice object"}
	}
	v, err := ex.loadPath(o.V, sl.Path)
	if err != nil {
		return nil, err
	}
	av, ok := v.(*ArrayV)
	if !ok {
		return nil, unsupported("slice over %T", v)
	}
	return av, nil
}

func (ex *Exec) sliceElems(s *State, sl SliceV) ([]Value, error) {
	if sl.Len == 0 {
		return nil, nil
	}
	av, err := ex.sliceArray(s, sl)
	if err != nil {
		return nil, err
	}
	out := make([]Value, sl.Len)
	for i := 0; i < sl.Len; i++ {
		out[i] = deepCopy(av.E[sl.Off+i])
	}
	return out, nil
}

func (ex *Exec) sliceBytes(s *State, sl SliceV) ([]*Term, error) {
	el, err := ex.sliceElems(s, sl)
	if err != nil {
		return nil, err
	}
	out := make([]*Term, len(el))
	for i, e := range el {
		t, ok := e.(*Term)
		if !ok {
			return nil, unsupported("byte slice with non-scalar element %T", e)
		}
		out[i] = t
	}
	return out, nil
}

func (ex *Exec) idx64(t *Term, signed bool) *Term {
	if t.S.W == 64 {
		return t
	}
	if signed {
		return ex.Ctx.SExt(t, 64)
	}
	return ex.Ctx.ZExt(t, 64)
}

// boundsFork handles a possibly out-of-range symbolic index: returns successor states
// when a fork is needed (the panic branch is terminated), or ok=true to continue in s.
func (ex *Exec) boundsFork(s *State, idx *Term, n int) (forked []*State, err error) {
	c := ex.Ctx
	inb := c.Cmp(OUlt, idx, c.BV(64, uint64(n)))
	if inb.IsTrue() {
		return nil, nil
	}
	if inb.IsFalse() {
		return nil, &goPanic{fmt.Sprintf("index out of range [%s] with length %d", describe(idx), n)}
	}
	ts, fs := ex.branch(s, inb)
	if fs == nil {
		return nil, nil
	}
	if ts == nil {
		return nil, &goPanic{fmt.Sprintf("index out of range (symbolic) with length %d", n)}
	}
	ex.doPanic(fs, fmt.Sprintf("index out of range (symbolic) with length %d", n))
	return []*State{ts, fs}, nil
}

func (ex *Exec) indexAddr(s *State, fr *Frame, x *ssa.IndexAddr, v Value, idx *Term) ([]*State, *stopPoint, error) {
	idx = ex.idx64(idx, isSigned(x.Index.Type()))
	var obj int
	var path []PE
	var off, n int
	switch b := v.(type) {
	case SliceV:
		obj, path, off, n = b.Obj, b.Path, b.Off, b.Len
	case Ptr:
		if b.Obj == 0 {
			return nil, nil, &goPanic{"nil pointer dereference (index)"}
		}
		at := x.X.Type().Underlying().(*types.Pointer).Elem().Underlying().(*types.Array)
		obj, path, off, n = b.Obj, b.Path, 0, int(at.Len())
	default:
		return nil, nil, &execError{fmt.Sprintf("INTERNAL IndexAddr on %T", v)}
	}
	forked, err := ex.boundsFork(s, idx, n)
	if err != nil {
		return nil, nil, err
	}
	if forked != nil {
		// re-execute in the in-bounds state (forked[0] is s with the constraint added)
		return forked, nil, nil
	}
	if idx.IsConst() {
		fr.Locals[x] = Ptr{Obj: obj, Path: appendPath(path, PE{I: off + int(idx.U)})}
	} else if n == 1 {
		fr.Locals[x] = Ptr{Obj: obj, Path: appendPath(path, PE{I: off})}
	} else {
		fr.Locals[x] = Ptr{Obj: obj, Path: appendPath(path, PE{I: off, Sym: idx, N: n})}
	}
	fr.IP++
	return nil, nil, nil
}

func (ex *Exec) indexValue(s *State, fr *Frame, x ssa.Value, v Value, idx *Term, signed bool) ([]*State, *stopPoint, error) {
	c := ex.Ctx
	idx = ex.idx64(idx, signed)
	var elems []Value
	switch b := v.(type) {
	case StringV:
		elems = make([]Value, len(b.B))
		for i, t := range b.B {
			elems[i] = t
		}
	case *ArrayV:
		elems = b.E
	default:
		return nil, nil, &execError{fmt.Sprintf("INTERNAL Index on %T", v)}
	}
	forked, err := ex.boundsFork(s, idx, len(elems))
	if err != nil {
		return nil, nil, err
	}
	if forked != nil {
		return forked, nil, nil
	}
	var res Value
	if idx.IsConst() {
		res = deepCopy(elems[idx.U])
	} else {
		for i := len(elems) - 1; i >= 0; i-- {
			if res == nil {
				res = elems[i]
				continue
			}
			m, ok := c.mergeVal(c.Eq(idx, c.BV(64, uint64(i))), elems[i], res)
			if !ok {
				return nil, nil, unsupported("symbolic index over non-mergeable elements")
			}
			res = m
		}
	}
	fr.Locals[x] = res
	fr.IP++
	return nil, nil, nil
}

func (ex *Exec) sliceOp(s *State, fr *Frame, x *ssa.Slice) ([]*State, *stopPoint, error) {
	v, err := ex.get(s, fr, x.X)
	if err != nil {
		return nil, nil, err
	}
	var bounds [3]*Term
	for i, b := range []ssa.Value{x.Low, x.High, x.Max} {
		if b == nil {
			continue
		}
		bv, err := ex.get(s, fr, b)
		if err != nil {
			return nil, nil, err
		}
		bounds[i] = ex.idx64(bv.(*Term), isSigned(b.Type()))
	}
	var sym []*Term
	for _, b := range bounds {
		if b != nil && !b.IsConst() {
			sym = append(sym, b)
		}
	}
	if len(sym) > 0 {
		return ex.concretizeAndRetrySlice(s, fr, x, sym)
	}
	geti := func(t *Term, def int) int {
		if t == nil {
			return def
		}
		return int(t.SInt64())
	}
	switch b := v.(type) {
	case StringV:
		lo, hi := geti(bounds[0], 0), geti(bounds[1], len(b.B))
		if lo < 0 || hi < lo || hi > len(b.B) {
			return nil, nil, &goPanic{fmt.Sprintf("slice bounds out of range [%d:%d] with length %d", lo, hi, len(b.B))}
		}
		fr.Locals[x] = StringV{B: b.B[lo:hi]}
	case SliceV:
		lo, hi, mx := geti(bounds[0], 0), geti(bounds[1], b.Len), geti(bounds[2], b.Cap)
		if lo < 0 || hi < lo || mx < hi || mx > b.Cap {
			return nil, nil, &goPanic{fmt.Sprintf("slice bounds out of range [%d:%d:%d] with capacity %d", lo, hi, mx, b.Cap)}
		}
		if b.Obj == 0 {
			fr.Locals[x] = SliceV{}
		} else {
			fr.Locals[x] = SliceV{Obj: b.Obj, Path: b.Path, Off: b.Off + lo, Len: hi - lo, Cap: mx - lo}
		}
	case Ptr:
		if b.Obj == 0 {
			return nil, nil, &goPanic{"nil pointer dereference (slice of array pointer)"}
		}
		at := x.X.Type().Underlying().(*types.Pointer).Elem().Underlying().(*types.Array)
		n := int(at.Len())
		lo, hi, mx := geti(bounds[0], 0), geti(bounds[1], n), geti(bounds[2], n)
		if lo < 0 || hi < lo || mx < hi || mx > n {
			return nil, nil, &goPanic{fmt.Sprintf("slice bounds out of range [%d:%d:%d] with array length %d", lo, hi, mx, n)}
		}
		fr.Locals[x] = SliceV{Obj: b.Obj, Path: b.Path, Off: lo, Len: hi - lo, Cap: mx - lo}
	default:
		return nil, nil, &execError{fmt.Sprintf("INTERNAL Slice on %T", v)}
	}
	fr.IP++
	return nil, nil, nil
}

func (ex *Exec) concretizeAndRetrySlice(s *State, fr *Frame, x *ssa.Slice, sym []*Term) ([]*State, *stopPoint, error) {
	// the bound terms were widened to 64 bits; pin the original locals through the constraint only
	t := sym[0]
	var out []*State
	cur := s
	for n := 0; n < 300; n++ {
		res, model := ex.Solver.Check(cur.PC, []*Term{t})
		if res == Unknown {
			return nil, nil, unsupported("concretisation: solver unknown")
		}
		if res == Unsat {
			break
		}
		if model[t] == nil {
			return nil, nil, unsupported("concretisation: no model value for %s", t)
		}
		val := ex.Ctx.BVBig(64, model[t])
		eq := ex.Ctx.Eq(t, val)
		alt := ex.clone(cur)
		alt.PC = append(alt.PC, eq)
		alt.Barrier = alt.Steps + 1
		afr := alt.top()
		for _, b := range []ssa.Value{x.Low, x.High, x.Max} {
			if b == nil {
				continue
			}
			if lv, ok := afr.Locals[b].(*Term); ok && ex.idx64(lv, isSigned(b.Type())) == t {
				afr.Locals[b] = ex.Ctx.Extract(val, lv.S.W-1, 0)
			}
		}
		out = append(out, alt)
		cur.PC = append(cur.PC, ex.Ctx.BNot(eq))
		if len(out) >= 299 {
			return nil, nil, unsupported("concretisation: too many slice bound values")
		}
	}
	cur.Status = Infeasible
	out = append(out, cur)
	return out, nil, nil
}
