package sym

import "math"

// Signed value-range analysis on BV terms (width <= 64), used to narrow
// multiplications and divisions before they reach the bit-blaster.

type srng struct {
	lo, hi int64
}

func fullRange(w int) srng {
	if w >= 64 {
		return srng{math.MinInt64, math.MaxInt64}
	}
	return srng{-(int64(1) << uint(w-1)), (int64(1) << uint(w-1)) - 1}
}

func (r srng) within(w int) bool {
	f := fullRange(w)
	return r.lo >= f.lo && r.hi <= f.hi
}

func addOv(a, b int64) (int64, bool) {
	c := a + b
	if (a > 0 && b > 0 && c < 0) || (a < 0 && b < 0 && c >= 0) {
		return 0, false
	}
	return c, true
}

func mulOv(a, b int64) (int64, bool) {
	if a == 0 || b == 0 {
		return 0, true
	}
	c := a * b
	if c/b != a || (a == -1 && b == math.MinInt64) || (b == -1 && a == math.MinInt64) {
		return 0, false
	}
	return c, true
}

func (c *Ctx) rangeOf(t *Term) srng {
	if t.S.K != KBV || t.S.W > 64 {
		return srng{math.MinInt64, math.MaxInt64}
	}
	if c.rcache == nil {
		c.rcache = map[int]srng{}
	}
	if r, ok := c.rcache[t.ID]; ok {
		return r
	}
	r := c.rangeCompute(t)
	f := fullRange(t.S.W)
	if r.lo < f.lo || r.hi > f.hi || r.lo > r.hi {
		r = f
	}
	c.rcache[t.ID] = r
	return r
}

func (c *Ctx) rangeCompute(t *Term) srng {
	w := t.S.W
	full := fullRange(w)
	switch t.Op {
	case OConst:
		v := t.SInt64()
		return srng{v, v}
	case OZExt:
		iw := t.Args[0].S.W
		in := c.rangeOf(t.Args[0])
		if in.lo >= 0 {
			return in
		}
		if iw >= 63 {
			return full
		}
		return srng{0, (int64(1) << uint(iw)) - 1}
	case OSExt:
		return c.rangeOf(t.Args[0])
	case OAdd, OSub:
		a, b := c.rangeOf(t.Args[0]), c.rangeOf(t.Args[1])
		if t.Op == OSub {
			if b.lo == math.MinInt64 {
				return full
			}
			b = srng{-b.hi, -b.lo}
		}
		lo, ok1 := addOv(a.lo, b.lo)
		hi, ok2 := addOv(a.hi, b.hi)
		if ok1 && ok2 && (srng{lo, hi}).within(w) {
			return srng{lo, hi}
		}
		return full
	case OMul:
		a, b := c.rangeOf(t.Args[0]), c.rangeOf(t.Args[1])
		lo, hi := int64(math.MaxInt64), int64(math.MinInt64)
		for _, x := range []int64{a.lo, a.hi} {
			for _, y := range []int64{b.lo, b.hi} {
				p, ok := mulOv(x, y)
				if !ok {
					return full
				}
				if p < lo {
					lo = p
				}
				if p > hi {
					hi = p
				}
			}
		}
		if (srng{lo, hi}).within(w) {
			return srng{lo, hi}
		}
		return full
	case OAnd:
		a, b := c.rangeOf(t.Args[0]), c.rangeOf(t.Args[1])
		if a.lo >= 0 && b.lo >= 0 {
			m := a.hi
			if b.hi < m {
				m = b.hi
			}
			return srng{0, m}
		}
		if b.lo >= 0 {
			return srng{0, b.hi}
		}
		if a.lo >= 0 {
			return srng{0, a.hi}
		}
		return full
	case OOr, OXor:
		a, b := c.rangeOf(t.Args[0]), c.rangeOf(t.Args[1])
		if a.lo >= 0 && b.lo >= 0 {
			m := a.hi | b.hi
			// smallest all-ones mask covering both
			k := int64(1)
			for k <= m && k > 0 {
				k <<= 1
			}
			if k > 0 {
				return srng{0, k - 1}
			}
		}
		return full
	case OURem, OUDiv:
		a, b := c.rangeOf(t.Args[0]), c.rangeOf(t.Args[1])
		if t.Op == OURem && b.lo > 0 && a.lo < 0 {
			return srng{0, b.hi - 1} // an unsigned remainder is below the (positive) divisor
		}
		if a.lo >= 0 && b.lo > 0 {
			if t.Op == OURem {
				hi := b.hi - 1
				if a.hi < hi {
					hi = a.hi
				}
				return srng{0, hi}
			}
			return srng{a.lo / b.hi, a.hi / b.lo}
		}
		return full
	case OSDiv, OSRem:
		a, b := c.rangeOf(t.Args[0]), c.rangeOf(t.Args[1])
		if b.lo > 0 {
			if t.Op == OSDiv {
				lo, hi := a.lo/b.lo, a.hi/b.lo
				if a.lo >= 0 {
					lo = a.lo / b.hi
				}
				if a.hi < 0 {
					hi = a.hi / b.hi
				}
				return srng{lo, hi}
			}
			m := b.hi - 1
			lo, hi := -m, m
			if a.lo >= 0 {
				lo = 0
			}
			if a.hi <= 0 {
				hi = 0
			}
			return srng{lo, hi}
		}
		return full
	case OIte:
		a, b := c.rangeOf(t.Args[1]), c.rangeOf(t.Args[2])
		lo, hi := a.lo, a.hi
		if b.lo < lo {
			lo = b.lo
		}
		if b.hi > hi {
			hi = b.hi
		}
		return srng{lo, hi}
	case OExtract:
		in := c.rangeOf(t.Args[0])
		if t.B == 0 && in.within(w) {
			return in
		}
		return full
	case OConcat:
		// zero-prefixed concat is handled as ZExt by the builder
		return full
	}
	return full
}

// narrowWidth returns the smallest of 8/16/32 (< w) whose signed range strictly
// contains r (so that negation cannot overflow), or 0.
func narrowWidth(w int, rs ...srng) int {
	for _, k := range []int{8, 16, 32} {
		if k >= w {
			break
		}
		f := fullRange(k)
		ok := true
		for _, r := range rs {
			if r.lo <= f.lo || r.hi > f.hi {
				ok = false
			}
		}
		if ok {
			return k
		}
	}
	return 0
}

func (r srng) contains(v interface{ IsInt64() bool; Int64() int64 }) bool {
	return v.IsInt64() && v.Int64() >= r.lo && v.Int64() <= r.hi
}
