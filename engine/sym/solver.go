package sym

import (
	"bufio"
	"fmt"
	"io"
	"math/big"
	"os"
	"os/exec"
	"sort"
	"strings"
	"time"
)

type Result int

const (
	Unsat Result = iota
	Sat
	Unknown
)

func (r Result) String() string { return [...]string{"unsat", "sat", "unknown"}[r] }

// Solver is one long-lived SMT solver process bound to one Ctx.
type Solver struct {
	Kind      string // z3 | z3-new | cvc5 | cvc5-int
	TimeoutMs int
	ctx       *Ctx
	cmd       *exec.Cmd
	in        io.WriteCloser
	out       *bufio.Reader
	defined   map[int]bool
	declVars  map[string]bool
	declUFs   map[string]bool
	declSorts map[string]bool
	Axioms    []*Term // asserted in every query
	cache     map[string]Result
	Queries   int
	CacheHits int
	TimeSpent time.Duration
	Log       io.Writer
	LastErr   string
	dead      bool
	stack     []*Term // assertions currently on the solver's assertion stack (one push level each)
}

func NewSolver(ctx *Ctx, kind string, timeoutMs int) (*Solver, error) {
	s := &Solver{Kind: kind, TimeoutMs: timeoutMs, ctx: ctx}
	if err := s.start(); err != nil {
		return nil, err
	}
	return s, nil
}

func (s *Solver) start() error {
	var cmd *exec.Cmd
	switch s.Kind {
	case "z3", "":
		cmd = exec.Command("z3", "-in", fmt.Sprintf("-t:%d", s.TimeoutMs))
	case "z3-new":
		cmd = exec.Command("z3-new", "-in", fmt.Sprintf("-t:%d", s.TimeoutMs))
	case "cvc5":
		cmd = exec.Command("cvc5", "--incremental", "--produce-models", fmt.Sprintf("--tlimit-per=%d", s.TimeoutMs), "--lang=smt2")
	case "cvc5-int":
		cmd = exec.Command("cvc5", "--incremental", "--produce-models", "--solve-bv-as-int=sum", fmt.Sprintf("--tlimit-per=%d", s.TimeoutMs), "--lang=smt2")
	default:
		return fmt.Errorf("unknown solver %q", s.Kind)
	}
	in, err := cmd.StdinPipe()
	if err != nil {
		return err
	}
	out, err := cmd.StdoutPipe()
	if err != nil {
		return err
	}
	cmd.Stderr = os.Stderr
	if err := cmd.Start(); err != nil {
		return err
	}
	s.cmd, s.in, s.out = cmd, in, bufio.NewReaderSize(out, 1<<20)
	s.defined = map[int]bool{}
	s.declVars = map[string]bool{}
	s.declUFs = map[string]bool{}
	s.declSorts = map[string]bool{}
	if s.cache == nil {
		s.cache = map[string]Result{}
	}
	s.dead = false
	if strings.HasPrefix(s.Kind, "cvc5") {
		s.send("(set-logic ALL)")
	}
	s.send("(set-option :produce-models true)")
	s.send("(set-option :global-declarations true)")
	s.stack = nil
	return nil
}

func (s *Solver) Close() {
	if s.cmd != nil {
		s.in.Close()
		s.cmd.Process.Kill()
		s.cmd.Wait()
		s.cmd = nil
	}
}

func (s *Solver) restart() {
	if os.Getenv("SYMGO_DEBUG") != "" {
		fmt.Fprintf(os.Stderr, "solver restart: dead=%v lastErr=%s\n", s.dead, s.LastErr)
	}
	s.Close()
	s.start()
}

func (s *Solver) send(line string) {
	if s.Log != nil {
		fmt.Fprintln(s.Log, line)
	}
	io.WriteString(s.in, line+"\n")
}

func (s *Solver) readLine() string {
	l, err := s.out.ReadString('\n')
	if err != nil {
		s.dead = true
		return "(error \"solver died: " + err.Error() + "\")"
	}
	return strings.TrimSpace(l)
}

func (s *Solver) declSort(so Sort) {
	if so.K == KU && !s.declSorts[so.Name] {
		s.declSorts[so.Name] = true
		s.send(fmt.Sprintf("(declare-sort %s 0)", so.Name))
	}
}

// define emits declarations/definitions for t and its subterms (base level).
func (s *Solver) define(t *Term) {
	if s.defined[t.ID] {
		return
	}
	// iterative post-order
	type fr struct {
		t *Term
		i int
	}
	st := []fr{{t, 0}}
	for len(st) > 0 {
		f := &st[len(st)-1]
		if s.defined[f.t.ID] {
			st = st[:len(st)-1]
			continue
		}
		if f.i < len(f.t.Args) {
			a := f.t.Args[f.i]
			f.i++
			if !s.defined[a.ID] {
				st = append(st, fr{a, 0})
			}
			continue
		}
		x := f.t
		st = st[:len(st)-1]
		s.defined[x.ID] = true
		switch x.Op {
		case OConst:
		case OVar:
			if !s.declVars[x.Name] {
				s.declVars[x.Name] = true
				s.declSort(x.S)
				s.send(fmt.Sprintf("(declare-fun %s () %s)", smtName(x.Name), x.S))
			}
		default:
			if x.Op == OApp && !s.declUFs[x.Name] {
				s.declUFs[x.Name] = true
				d := s.ctx.UFs[x.Name]
				var dom []string
				for _, so := range d.Dom {
					s.declSort(so)
					dom = append(dom, so.String())
				}
				s.declSort(d.Rng)
				s.send(fmt.Sprintf("(declare-fun %s (%s) %s)", smtName(x.Name), strings.Join(dom, " "), d.Rng))
			}
			s.send(fmt.Sprintf("(define-fun t!%d () %s %s)", x.ID, x.S, body(x)))
		}
	}
}

// Check decides satisfiability of the conjunction of asserts (plus axioms).
// When want is non-empty and the result is sat, values of those terms are returned.
func (s *Solver) Check(asserts []*Term, want []*Term) (Result, map[*Term]*big.Int) {
	ids := make([]int, 0, len(asserts))
	all := append(append([]*Term{}, s.Axioms...), asserts...)
	for _, a := range all {
		if a.IsFalse() {
			return Unsat, nil
		}
		if !a.IsTrue() {
			ids = append(ids, a.ID)
		}
	}
	sort.Ints(ids)
	key := fmt.Sprint(ids)
	if len(want) == 0 {
		if r, ok := s.cache[key]; ok {
			s.CacheHits++
			return r, nil
		}
	}
	if s.dead {
		s.restart()
	}
	t0 := time.Now()
	defer func() { s.TimeSpent += time.Since(t0) }()
	s.Queries++
	var live []*Term
	for _, a := range all {
		if !a.IsTrue() {
			live = append(live, a)
		}
	}
	// keep the common prefix of the previous query asserted (incremental reuse)
	k := 0
	for k < len(s.stack) && k < len(live) && s.stack[k] == live[k] {
		k++
	}
	if n := len(s.stack) - k; n > 0 {
		s.send(fmt.Sprintf("(pop %d)", n))
		s.stack = s.stack[:k]
	}
	for _, w := range want {
		s.define(w)
	}
	for _, a := range live[k:] {
		s.define(a)
		s.send("(push 1)")
		s.send("(assert " + ref(a) + ")")
		s.stack = append(s.stack, a)
	}
	s.send("(check-sat)")
	ans := s.readLine()
	for strings.HasPrefix(ans, "(error") || strings.HasPrefix(ans, "(warning") || ans == "" {
		if strings.HasPrefix(ans, "(error") {
			s.LastErr = ans
			s.restart()
			return Unknown, nil
		}
		ans = s.readLine()
	}
	var res Result
	switch ans {
	case "sat":
		res = Sat
	case "unsat":
		res = Unsat
	default:
		res = Unknown
		s.LastErr = ans
	}
	var model map[*Term]*big.Int
	if res == Sat && len(want) > 0 {
		model = map[*Term]*big.Int{}
		for _, w := range want {
			s.send("(get-value (" + ref(w) + "))")
			v := s.readSexp()
			if bv := parseValue(v); bv != nil {
				model[w] = bv
			}
		}
	}
	if len(want) == 0 && res != Unknown {
		s.cache[key] = res
	}
	if s.dead {
		return Unknown, nil
	}
	return res, model
}

// readSexp reads one balanced s-expression (possibly spanning lines).
func (s *Solver) readSexp() string {
	var sb strings.Builder
	depth := 0
	started := false
	for {
		l, err := s.out.ReadString('\n')
		if err != nil {
			s.dead = true
			return sb.String()
		}
		sb.WriteString(l)
		for _, r := range l {
			if r == '(' {
				depth++
				started = true
			} else if r == ')' {
				depth--
			}
		}
		if started && depth <= 0 {
			return sb.String()
		}
		if !started && strings.TrimSpace(l) != "" {
			return sb.String()
		}
	}
}

// parseValue extracts the value from "((name value))".
func parseValue(s string) *big.Int {
	s = strings.TrimSpace(s)
	if i := strings.Index(s, "#x"); i >= 0 {
		j := i + 2
		for j < len(s) && strings.ContainsRune("0123456789abcdefABCDEF", rune(s[j])) {
			j++
		}
		v, ok := new(big.Int).SetString(s[i+2:j], 16)
		if ok {
			return v
		}
	}
	if i := strings.Index(s, "#b"); i >= 0 {
		j := i + 2
		for j < len(s) && (s[j] == '0' || s[j] == '1') {
			j++
		}
		v, ok := new(big.Int).SetString(s[i+2:j], 2)
		if ok {
			return v
		}
	}
	if strings.HasSuffix(s, " true))") {
		return big.NewInt(1)
	}
	if strings.HasSuffix(s, " false))") {
		return big.NewInt(0)
	}
	// Int: ((name 123)) or ((name (- 123)))
	s = strings.TrimSuffix(strings.TrimSuffix(s, ")"), ")")
	neg := false
	if i := strings.LastIndex(s, "(- "); i >= 0 {
		neg = true
		s = strings.TrimSuffix(s[i+3:], ")")
	} else if i := strings.LastIndex(s, " "); i >= 0 {
		s = s[i+1:]
	}
	s = strings.TrimSpace(strings.TrimSuffix(s, ")"))
	v, ok := new(big.Int).SetString(s, 10)
	if !ok {
		return nil
	}
	if neg {
		v.Neg(v)
	}
	return v
}
