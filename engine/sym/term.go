// Package sym: hash-consed SMT term DAG with local simplification.
package sym

import (
	"fmt"
	"os"
	"math/big"
	"sort"
	"strings"
)

type Kind uint8

const (
	KBool Kind = iota
	KBV
	KInt
	KU // uninterpreted sort
)

type Sort struct {
	K    Kind
	W    int
	Name string
}

func (s Sort) String() string {
	switch s.K {
	case KBool:
		return "Bool"
	case KBV:
		return fmt.Sprintf("(_ BitVec %d)", s.W)
	case KInt:
		return "Int"
	}
	return s.Name
}

var SBool = Sort{K: KBool}
var SInt = Sort{K: KInt}

func SBV(w int) Sort { return Sort{K: KBV, W: w} }

type Op uint8

const (
	OConst Op = iota
	OVar
	OAdd
	OSub
	OMul
	OUDiv
	OURem
	OSDiv
	OSRem
	OAnd
	OOr
	OXor
	ONot
	ONeg
	OShl
	OLShr
	OAShr
	OConcat
	OExtract
	OZExt
	OSExt
	OEq
	OUlt
	OUle
	OSlt
	OSle
	OBAnd
	OBOr
	OBNot
	OIte
	OApp
	OIAdd
	OISub
	OIMul
	OIDiv
	OIMod
	OILt
	OILe
	OBV2Int
	OInt2BV
)

var opName = map[Op]string{
	OAdd: "bvadd", OSub: "bvsub", OMul: "bvmul", OUDiv: "bvudiv", OURem: "bvurem", OSDiv: "bvsdiv", OSRem: "bvsrem",
	OAnd: "bvand", OOr: "bvor", OXor: "bvxor", ONot: "bvnot", ONeg: "bvneg", OShl: "bvshl", OLShr: "bvlshr", OAShr: "bvashr",
	OConcat: "concat", OEq: "=", OUlt: "bvult", OUle: "bvule", OSlt: "bvslt", OSle: "bvsle",
	OBAnd: "and", OBOr: "or", OBNot: "not", OIte: "ite",
	OIAdd: "+", OISub: "-", OIMul: "*", OIDiv: "div", OIMod: "mod", OILt: "<", OILe: "<=",
}

type Term struct {
	ID   int
	Op   Op
	S    Sort
	Args []*Term
	U    uint64   // const value for BV<=64, Bool (0/1)
	Big  *big.Int // const value for BV>64 and Int
	Name string   // var / UF name
	A, B int      // extract hi,lo ; ext amount
}

type tkey struct {
	op         Op
	sk         Kind
	sw         int
	a0, a1, a2 int
	u          uint64
	a, b       int
	s          string
}

type UFDecl struct {
	Name string
	Dom  []Sort
	Rng  Sort
}

// Ctx owns a term DAG. Not safe for concurrent use.
type Ctx struct {
	tab    map[tkey]*Term
	nextID int
	UFs    map[string]*UFDecl
	USorts map[string]bool
	tt, ff *Term
	rcache map[int]srng
	terms  []*Term
}

func NewCtx() *Ctx {
	c := &Ctx{tab: map[tkey]*Term{}, UFs: map[string]*UFDecl{}, USorts: map[string]bool{}}
	c.tt = c.mk(&Term{Op: OConst, S: SBool, U: 1})
	c.ff = c.mk(&Term{Op: OConst, S: SBool, U: 0})
	return c
}

func (c *Ctx) NumTerms() int { return c.nextID }

func (c *Ctx) byID(id int) *Term { return c.terms[id] }

func (c *Ctx) mk(t *Term) *Term {
	k := tkey{op: t.Op, sk: t.S.K, sw: t.S.W, u: t.U, a: t.A, b: t.B, a0: -1, a1: -1, a2: -1}
	var sb strings.Builder
	sb.WriteString(t.Name)
	if t.S.K == KU {
		sb.WriteString("#" + t.S.Name)
	}
	if t.Big != nil {
		sb.WriteString("#" + t.Big.Text(16))
	}
	for i, a := range t.Args {
		switch i {
		case 0:
			k.a0 = a.ID
		case 1:
			k.a1 = a.ID
		case 2:
			k.a2 = a.ID
		default:
			fmt.Fprintf(&sb, ",%d", a.ID)
		}
	}
	k.s = sb.String()
	if e, ok := c.tab[k]; ok {
		return e
	}
	t.ID = c.nextID
	c.nextID++
	c.tab[k] = t
	c.terms = append(c.terms, t)
	return t
}

func mask(w int) uint64 {
	if w >= 64 {
		return ^uint64(0)
	}
	return (uint64(1) << uint(w)) - 1
}

func (c *Ctx) True() *Term  { return c.tt }
func (c *Ctx) False() *Term { return c.ff }
func (c *Ctx) Bool(b bool) *Term {
	if b {
		return c.tt
	}
	return c.ff
}

func (c *Ctx) BV(w int, u uint64) *Term {
	if w > 64 {
		return c.BVBig(w, new(big.Int).SetUint64(u))
	}
	return c.mk(&Term{Op: OConst, S: SBV(w), U: u & mask(w)})
}

func (c *Ctx) BVBig(w int, v *big.Int) *Term {
	m := new(big.Int).Lsh(big.NewInt(1), uint(w))
	x := new(big.Int).Mod(v, m)
	if w <= 64 {
		return c.mk(&Term{Op: OConst, S: SBV(w), U: x.Uint64()})
	}
	return c.mk(&Term{Op: OConst, S: SBV(w), Big: x})
}

func (c *Ctx) Int(v *big.Int) *Term {
	return c.mk(&Term{Op: OConst, S: SInt, Big: new(big.Int).Set(v)})
}
func (c *Ctx) IntI(v int64) *Term { return c.Int(big.NewInt(v)) }

func (c *Ctx) Var(name string, s Sort) *Term {
	if s.K == KU {
		c.USorts[s.Name] = true
	}
	return c.mk(&Term{Op: OVar, S: s, Name: name})
}

func (t *Term) IsConst() bool { return t.Op == OConst }
func (t *Term) IsTrue() bool  { return t.Op == OConst && t.S.K == KBool && t.U == 1 }
func (t *Term) IsFalse() bool { return t.Op == OConst && t.S.K == KBool && t.U == 0 }

// BigVal returns the unsigned value of a constant.
func (t *Term) BigVal() *big.Int {
	if t.Big != nil {
		return t.Big
	}
	return new(big.Int).SetUint64(t.U)
}

// SInt64 returns signed value of a BV<=64 const.
func (t *Term) SInt64() int64 {
	w := t.S.W
	if w >= 64 {
		return int64(t.U)
	}
	if t.U>>(uint(w)-1)&1 == 1 {
		return int64(t.U | ^mask(w))
	}
	return int64(t.U)
}

func (c *Ctx) signedBig(t *Term) *big.Int {
	v := new(big.Int).Set(t.BigVal())
	if v.Bit(t.S.W-1) == 1 {
		v.Sub(v, new(big.Int).Lsh(big.NewInt(1), uint(t.S.W)))
	}
	return v
}

func (c *Ctx) App(name string, rng Sort, args ...*Term) *Term {
	d, ok := c.UFs[name]
	if !ok {
		d = &UFDecl{Name: name, Rng: rng}
		for _, a := range args {
			d.Dom = append(d.Dom, a.S)
		}
		c.UFs[name] = d
		if rng.K == KU {
			c.USorts[rng.Name] = true
		}
	} else {
		if len(d.Dom) != len(args) || d.Rng != rng {
			panic("UF arity/sort mismatch for " + name)
		}
		for i, a := range args {
			if d.Dom[i] != a.S {
				panic(fmt.Sprintf("UF %s arg %d sort mismatch: %v vs %v", name, i, d.Dom[i], a.S))
			}
		}
	}
	if len(args) == 0 {
		return c.Var(name, rng)
	}
	return c.mk(&Term{Op: OApp, S: rng, Name: name, Args: args})
}

func (c *Ctx) bin(op Op, s Sort, a, b *Term) *Term {
	return c.mk(&Term{Op: op, S: s, Args: []*Term{a, b}})
}

func (c *Ctx) chk(a, b *Term) {
	if a.S != b.S {
		panic(fmt.Sprintf("sort mismatch: %v vs %v", a.S, b.S))
	}
}

func (c *Ctx) foldBV(op Op, a, b *Term) *Term {
	w := a.S.W
	if w <= 64 {
		x, y := a.U, b.U
		var r uint64
		switch op {
		case OAdd:
			r = x + y
		case OSub:
			r = x - y
		case OMul:
			r = x * y
		case OAnd:
			r = x & y
		case OOr:
			r = x | y
		case OXor:
			r = x ^ y
		case OUDiv:
			if y == 0 {
				r = mask(w)
			} else {
				r = x / y
			}
		case OURem:
			if y == 0 {
				r = x
			} else {
				r = x % y
			}
		case OSDiv, OSRem:
			sx, sy := a.SInt64(), b.SInt64()
			if sy == 0 {
				if op == OSRem {
					r = x
				} else if sx < 0 {
					r = 1
				} else {
					r = mask(w)
				}
			} else if sy == -1 {
				if op == OSDiv {
					r = uint64(-sx)
				} else {
					r = 0
				}
			} else if op == OSDiv {
				r = uint64(sx / sy)
			} else {
				r = uint64(sx % sy)
			}
		case OShl:
			if y >= uint64(w) {
				r = 0
			} else {
				r = x << y
			}
		case OLShr:
			if y >= uint64(w) {
				r = 0
			} else {
				r = x >> y
			}
		case OAShr:
			sx := a.SInt64()
			if y >= uint64(w) {
				y = uint64(w) - 1
			}
			r = uint64(sx >> y)
		default:
			return nil
		}
		return c.BV(w, r)
	}
	x, y := a.BigVal(), b.BigVal()
	r := new(big.Int)
	switch op {
	case OAdd:
		r.Add(x, y)
	case OSub:
		r.Sub(x, y)
	case OMul:
		r.Mul(x, y)
	case OAnd:
		r.And(x, y)
	case OOr:
		r.Or(x, y)
	case OXor:
		r.Xor(x, y)
	case OUDiv:
		if y.Sign() == 0 {
			r.Sub(new(big.Int).Lsh(big.NewInt(1), uint(w)), big.NewInt(1))
		} else {
			r.Quo(x, y)
		}
	case OURem:
		if y.Sign() == 0 {
			r.Set(x)
		} else {
			r.Rem(x, y)
		}
	case OSDiv, OSRem:
		sx, sy := c.signedBig(a), c.signedBig(b)
		if sy.Sign() == 0 {
			if op == OSRem {
				r.Set(x)
			} else if sx.Sign() < 0 {
				r.SetInt64(1)
			} else {
				r.SetInt64(-1)
			}
		} else if op == OSDiv {
			r.Quo(sx, sy)
		} else {
			r.Rem(sx, sy)
		}
	case OShl:
		if !y.IsUint64() || y.Uint64() >= uint64(w) {
			r.SetInt64(0)
		} else {
			r.Lsh(x, uint(y.Uint64()))
		}
	case OLShr:
		if !y.IsUint64() || y.Uint64() >= uint64(w) {
			r.SetInt64(0)
		} else {
			r.Rsh(x, uint(y.Uint64()))
		}
	case OAShr:
		sx := c.signedBig(a)
		sh := uint(w - 1)
		if y.IsUint64() && y.Uint64() < uint64(w) {
			sh = uint(y.Uint64())
		}
		r.Rsh(sx, sh)
	default:
		return nil
	}
	return c.BVBig(w, r)
}

func (t *Term) isZero() bool {
	return t.Op == OConst && ((t.Big == nil && t.U == 0) || (t.Big != nil && t.Big.Sign() == 0))
}
func (t *Term) isOne() bool {
	return t.Op == OConst && ((t.Big == nil && t.U == 1) || (t.Big != nil && t.Big.Cmp(big.NewInt(1)) == 0))
}
func (t *Term) isAllOnes() bool {
	if t.Op != OConst || t.S.K != KBV {
		return false
	}
	if t.S.W <= 64 {
		return t.U == mask(t.S.W)
	}
	m := new(big.Int).Lsh(big.NewInt(1), uint(t.S.W))
	m.Sub(m, big.NewInt(1))
	return t.Big.Cmp(m) == 0
}

// BVOp builds a binary bit-vector operation with simplification.
func (c *Ctx) BVOp(op Op, a, b *Term) *Term {
	c.chk(a, b)
	if a.S.K != KBV {
		panic("BVOp on non-BV " + a.S.String())
	}
	if a.IsConst() && b.IsConst() {
		if r := c.foldBV(op, a, b); r != nil {
			return r
		}
	}
	w := a.S.W
	if b.Op == OIte && a.IsConst() && (op == OAdd || op == OMul || op == OAnd || op == OOr || op == OXor) {
		a, b = b, a
	}
	if a.Op == OIte && b.IsConst() && op != OConcat {
		// op(ite-tree of constants, constant): evaluate at the leaves
		if r := c.LiftIte(a, func(leaf *Term) *Term { return c.BVOp(op, leaf, b) }); r != nil {
			return r
		}
	}
	switch op {
	case OAdd:
		if a.isZero() {
			return b
		}
		if b.isZero() {
			return a
		}
		if a.IsConst() {
			a, b = b, a
		}
		// (x + k1) + k2
		if b.IsConst() && a.Op == OAdd && a.Args[1].IsConst() {
			return c.BVOp(OAdd, a.Args[0], c.foldBV(OAdd, a.Args[1], b))
		}
	case OSub:
		if b.isZero() {
			return a
		}
		if a == b {
			return c.BV(w, 0)
		}
		if b.IsConst() {
			return c.BVOp(OAdd, a, c.foldBV(OSub, c.BV(w, 0), b))
		}
	case OMul:
		if a.isZero() || b.isZero() {
			return c.BV(w, 0)
		}
		if a.isOne() {
			return b
		}
		if b.isOne() {
			return a
		}
		if a.IsConst() {
			a, b = b, a
		}
	case OAnd:
		if a.isZero() || b.isZero() {
			return c.BV(w, 0)
		}
		if a.isAllOnes() {
			return b
		}
		if b.isAllOnes() {
			return a
		}
		if a == b {
			return a
		}
		if a.IsConst() {
			a, b = b, a
		}
		// zext(x,w') & mask where mask covers all low bits of x
		if b.IsConst() && a.Op == OZExt && w <= 64 {
			iw := a.Args[0].S.W
			if b.U&mask(iw) == mask(iw) {
				return a
			}
		}
		if b.IsConst() && a.Op == OAnd && a.Args[1].IsConst() {
			return c.BVOp(OAnd, a.Args[0], c.foldBV(OAnd, a.Args[1], b))
		}
	case OOr:
		if a.isZero() {
			return b
		}
		if b.isZero() {
			return a
		}
		if a == b {
			return a
		}
		if a.isAllOnes() {
			return a
		}
		if b.isAllOnes() {
			return b
		}
		if a.IsConst() {
			a, b = b, a
		}
	case OXor:
		if a.isZero() {
			return b
		}
		if b.isZero() {
			return a
		}
		if a == b {
			return c.BV(w, 0)
		}
		if a.IsConst() {
			a, b = b, a
		}
		if b.isAllOnes() {
			return c.Not(a)
		}
	case OShl, OLShr, OAShr:
		if b.isZero() {
			return a
		}
		if a.isZero() {
			return a
		}
		if b.IsConst() && b.BigVal().Cmp(big.NewInt(int64(w))) >= 0 && op != OAShr {
			return c.BV(w, 0)
		}
		if b.IsConst() && op == OLShr {
			// lshr by constant k = zext(extract(w-1,k))
			k := int(b.BigVal().Int64())
			return c.ZExt(c.Extract(a, w-1, k), w)
		}
		if b.IsConst() && op == OShl {
			k := int(b.BigVal().Int64())
			return c.Concat(c.Extract(a, w-1-k, 0), c.BV(k, 0))
		}
	case OUDiv, OURem, OSDiv, OSRem:
		if b.isOne() {
			if op == OUDiv || op == OSDiv {
				return a
			}
			return c.BV(w, 0)
		}
	}
	if w <= 64 && (op == OUDiv || op == OURem || op == OSDiv || op == OSRem || op == OMul) {
		ra, rb := c.rangeOf(a), c.rangeOf(b)
		if op == OMul {
			rr := c.rangeCompute(&Term{Op: OMul, S: a.S, Args: []*Term{a, b}})
			if k := narrowWidth(w, ra, rb, rr); k > 0 {
				return c.SExt(c.bin(OMul, SBV(k), c.Extract(a, k-1, 0), c.Extract(b, k-1, 0)), w)
			}
		} else if op == OSDiv || op == OSRem {
			if k := narrowWidth(w, ra, rb); k > 0 {
				return c.SExt(c.bin(op, SBV(k), c.Extract(a, k-1, 0), c.Extract(b, k-1, 0)), w)
			}
		} else if ra.lo >= 0 && rb.lo >= 0 {
			if k := narrowWidth(w, ra, rb); k > 0 {
				return c.ZExt(c.bin(op, SBV(k), c.Extract(a, k-1, 0), c.Extract(b, k-1, 0)), w)
			}
		}
	}
	if (op == OAdd || op == OMul || op == OAnd || op == OOr || op == OXor) && !a.IsConst() && !b.IsConst() && a.ID > b.ID {
		a, b = b, a
	}
	return c.bin(op, a.S, a, b)
}

func (c *Ctx) Add(a, b *Term) *Term { return c.BVOp(OAdd, a, b) }
func (c *Ctx) Sub(a, b *Term) *Term { return c.BVOp(OSub, a, b) }
func (c *Ctx) Mul(a, b *Term) *Term { return c.BVOp(OMul, a, b) }
func (c *Ctx) And(a, b *Term) *Term { return c.BVOp(OAnd, a, b) }
func (c *Ctx) Or(a, b *Term) *Term  { return c.BVOp(OOr, a, b) }
func (c *Ctx) Xor(a, b *Term) *Term { return c.BVOp(OXor, a, b) }

func (c *Ctx) Not(a *Term) *Term {
	if a.IsConst() {
		if a.S.W <= 64 {
			return c.BV(a.S.W, ^a.U)
		}
		m := new(big.Int).Lsh(big.NewInt(1), uint(a.S.W))
		m.Sub(m, big.NewInt(1))
		return c.BVBig(a.S.W, m.Xor(m, a.Big))
	}
	if a.Op == ONot {
		return a.Args[0]
	}
	return c.mk(&Term{Op: ONot, S: a.S, Args: []*Term{a}})
}

func (c *Ctx) Neg(a *Term) *Term {
	return c.BVOp(OSub, c.BV(a.S.W, 0), a)
}

func (c *Ctx) Extract(a *Term, hi, lo int) *Term {
	if a.S.K != KBV || hi < lo || hi >= a.S.W || lo < 0 {
		panic(fmt.Sprintf("bad extract %d %d of %v", hi, lo, a.S))
	}
	if lo == 0 && hi == a.S.W-1 {
		return a
	}
	nw := hi - lo + 1
	if a.IsConst() {
		v := new(big.Int).Rsh(a.BigVal(), uint(lo))
		return c.BVBig(nw, v)
	}
	switch a.Op {
	case OExtract:
		return c.Extract(a.Args[0], a.B+hi, a.B+lo)
	case OZExt:
		iw := a.Args[0].S.W
		if hi < iw {
			return c.Extract(a.Args[0], hi, lo)
		}
		if lo >= iw {
			return c.BV(nw, 0)
		}
		return c.ZExt(c.Extract(a.Args[0], iw-1, lo), nw)
	case OSExt:
		iw := a.Args[0].S.W
		if hi < iw {
			return c.Extract(a.Args[0], hi, lo)
		}
		if lo == 0 {
			return c.SExt(a.Args[0], nw)
		}
	case OConcat:
		// args are high..low
		pos := a.S.W
		for _, x := range a.Args {
			xl := pos - x.S.W // x occupies [pos-1 .. xl]
			if hi < pos && lo >= xl {
				return c.Extract(x, hi-xl, lo-xl)
			}
			pos = xl
		}
		// spans several parts: rebuild from the covered parts
		var parts []*Term
		pos = a.S.W
		for _, x := range a.Args {
			xl := pos - x.S.W
			h, l := hi, lo
			if h > pos-1 {
				h = pos - 1
			}
			if l < xl {
				l = xl
			}
			if h >= l {
				parts = append(parts, c.Extract(x, h-xl, l-xl))
			}
			pos = xl
		}
		return c.Concat(parts...)
	case OAnd, OOr, OXor:
		return c.BVOp(a.Op, c.Extract(a.Args[0], hi, lo), c.Extract(a.Args[1], hi, lo))
	case ONot:
		return c.Not(c.Extract(a.Args[0], hi, lo))
	case OIte:
		if a.Args[1].IsConst() || a.Args[2].IsConst() {
			return c.Ite(a.Args[0], c.Extract(a.Args[1], hi, lo), c.Extract(a.Args[2], hi, lo))
		}
	case OAdd, OSub, OMul:
		if lo == 0 {
			return c.BVOp(a.Op, c.Extract(a.Args[0], hi, 0), c.Extract(a.Args[1], hi, 0))
		}
	}
	return c.mk(&Term{Op: OExtract, S: SBV(nw), Args: []*Term{a}, A: hi, B: lo})
}

// Concat: args high..low.
func (c *Ctx) Concat(args ...*Term) *Term {
	var flat []*Term
	for _, a := range args {
		if a.S.K != KBV {
			panic("concat non-bv")
		}
		if a.Op == OConcat {
			flat = append(flat, a.Args...)
		} else {
			flat = append(flat, a)
		}
	}
	// merge adjacent constants and adjacent extracts of the same term
	var out []*Term
	for _, a := range flat {
		if n := len(out); n > 0 {
			p := out[n-1]
			if p.IsConst() && a.IsConst() {
				v := new(big.Int).Lsh(p.BigVal(), uint(a.S.W))
				v.Or(v, a.BigVal())
				out[n-1] = c.BVBig(p.S.W+a.S.W, v)
				continue
			}
			if p.Op == OExtract && a.Op == OExtract && p.Args[0] == a.Args[0] && p.B == a.A+1 {
				out[n-1] = c.Extract(p.Args[0], p.A, a.B)
				continue
			}
		}
		out = append(out, a)
	}
	if len(out) == 1 {
		return out[0]
	}
	w := 0
	for _, a := range out {
		w += a.S.W
	}
	if out[0].isZero() && len(out) == 2 {
		return c.ZExt(out[1], w)
	}
	return c.mk(&Term{Op: OConcat, S: SBV(w), Args: out})
}

func (c *Ctx) ZExt(a *Term, w int) *Term {
	if a.S.W == w {
		return a
	}
	if a.S.W > w {
		panic("zext narrower")
	}
	if a.IsConst() {
		return c.BVBig(w, a.BigVal())
	}
	if a.Op == OZExt {
		return c.ZExt(a.Args[0], w)
	}
	return c.mk(&Term{Op: OZExt, S: SBV(w), Args: []*Term{a}, A: w - a.S.W})
}

func (c *Ctx) SExt(a *Term, w int) *Term {
	if a.S.W == w {
		return a
	}
	if a.S.W > w {
		panic("sext narrower")
	}
	if a.IsConst() {
		return c.BVBig(w, c.signedBig(a))
	}
	if a.Op == OZExt {
		return c.ZExt(a.Args[0], w)
	}
	return c.mk(&Term{Op: OSExt, S: SBV(w), Args: []*Term{a}, A: w - a.S.W})
}

func cmpConst(op Op, c *Ctx, a, b *Term) bool {
	switch op {
	case OEq:
		return a.BigVal().Cmp(b.BigVal()) == 0
	case OUlt:
		return a.BigVal().Cmp(b.BigVal()) < 0
	case OUle:
		return a.BigVal().Cmp(b.BigVal()) <= 0
	case OSlt:
		return c.signedBig(a).Cmp(c.signedBig(b)) < 0
	case OSle:
		return c.signedBig(a).Cmp(c.signedBig(b)) <= 0
	}
	panic("cmp")
}

func (c *Ctx) Eq(a, b *Term) *Term {
	c.chk(a, b)
	if a == b {
		return c.tt
	}
	if a.IsConst() && b.IsConst() {
		if a.S.K == KBool {
			return c.Bool(a.U == b.U)
		}
		return c.Bool(a.BigVal().Cmp(b.BigVal()) == 0)
	}
	if a.S.K == KBool {
		if a.IsConst() {
			a, b = b, a
		}
		if b.IsTrue() {
			return a
		}
		if b.IsFalse() {
			return c.BNot(a)
		}
	}
	if a.IsConst() {
		a, b = b, a
	}
	if b.IsConst() && a.Op == OIte && (a.Args[1].IsConst() || a.Args[2].IsConst()) {
		return c.Ite(a.Args[0], c.Eq(a.Args[1], b), c.Eq(a.Args[2], b))
	}
	if b.IsConst() && a.Op == OZExt && a.S.K == KBV {
		iw := a.Args[0].S.W
		if b.BigVal().BitLen() > iw {
			return c.ff
		}
		return c.Eq(a.Args[0], c.BVBig(iw, b.BigVal()))
	}
	if (a.Op == OSExt && b.Op == OSExt || a.Op == OZExt && b.Op == OZExt) && a.Args[0].S == b.Args[0].S {
		return c.Eq(a.Args[0], b.Args[0])
	}
	if b.IsConst() && a.Op == OSExt {
		iw := a.Args[0].S.W
		if !fullRange(iw).contains(c.signedBig(b)) {
			return c.ff
		}
		return c.Eq(a.Args[0], c.BVBig(iw, c.signedBig(b)))
	}
	if a.ID > b.ID && !b.IsConst() {
		a, b = b, a
	}
	return c.bin(OEq, SBool, a, b)
}

func (c *Ctx) Cmp(op Op, a, b *Term) *Term {
	c.chk(a, b)
	if a.IsConst() && b.IsConst() {
		return c.Bool(cmpConst(op, c, a, b))
	}
	if a == b {
		return c.Bool(op == OUle || op == OSle)
	}
	switch op {
	case OUlt:
		if b.isZero() {
			return c.ff
		}
	case OUle:
		if a.isZero() {
			return c.tt
		}
	}
	// compare zext(x) with const: narrow
	if (op == OUlt || op == OUle) && a.Op == OZExt && b.IsConst() {
		iw := a.Args[0].S.W
		if b.BigVal().BitLen() > iw {
			return c.tt
		}
		return c.Cmp(op, a.Args[0], c.BVBig(iw, b.BigVal()))
	}
	if (op == OUlt || op == OUle) && b.Op == OZExt && a.IsConst() {
		iw := b.Args[0].S.W
		if a.BigVal().BitLen() > iw {
			return c.ff
		}
		return c.Cmp(op, c.BVBig(iw, a.BigVal()), b.Args[0])
	}
	if (op == OSlt || op == OSle) && a.Op == OZExt && b.IsConst() && b.BigVal().Bit(b.S.W-1) == 0 {
		// zext is non-negative: signed compare with non-negative const = unsigned
		uop := OUlt
		if op == OSle {
			uop = OUle
		}
		return c.Cmp(uop, a, b)
	}
	if (op == OSlt || op == OSle) && b.Op == OZExt && a.IsConst() && a.BigVal().Bit(a.S.W-1) == 0 {
		uop := OUlt
		if op == OSle {
			uop = OUle
		}
		return c.Cmp(uop, a, b)
	}
	if (op == OSlt || op == OSle) && a.Op == OSExt && b.Op == OSExt && a.Args[0].S == b.Args[0].S {
		return c.Cmp(op, a.Args[0], b.Args[0])
	}
	if (op == OUlt || op == OUle) && a.Op == OZExt && b.Op == OZExt && a.Args[0].S == b.Args[0].S {
		return c.Cmp(op, a.Args[0], b.Args[0])
	}
	if op == OUlt && a.Op == OAdd && a.S.W <= 64 && (a.Args[0] == b || a.Args[1] == b) {
		// x + y < x is false when the addition cannot wrap
		other := a.Args[0]
		if other == b {
			other = a.Args[1]
		}
		if ro, rs := c.rangeOf(other), c.rangeOf(a); ro.lo >= 0 && rs != fullRange(a.S.W) && c.rangeOf(b).lo >= 0 {
			return c.ff
		}
	}
	if (op == OUlt || op == OUle) && a.S.W <= 64 {
		ra, rb := c.rangeOf(a), c.rangeOf(b)
		if ra.lo >= 0 && rb.lo >= 0 {
			if ra.hi < rb.lo || (op == OUle && ra.hi <= rb.lo) {
				return c.tt
			}
			if ra.lo > rb.hi || (op == OUlt && ra.lo >= rb.hi) {
				return c.ff
			}
		}
	}
	if (op == OSlt || op == OSle) && a.S.W <= 64 {
		// decide by ranges where possible, else narrow
		ra, rb := c.rangeOf(a), c.rangeOf(b)
		if ra.hi < rb.lo || (op == OSle && ra.hi <= rb.lo) {
			return c.tt
		}
		if ra.lo > rb.hi || (op == OSlt && ra.lo >= rb.hi) {
			return c.ff
		}
		if k := narrowWidth(a.S.W, ra, rb); k > 0 {
			return c.bin(op, SBool, c.Extract(a, k-1, 0), c.Extract(b, k-1, 0))
		}
	}
	return c.bin(op, SBool, a, b)
}

func (c *Ctx) BNot(a *Term) *Term {
	if a.IsConst() {
		return c.Bool(a.U == 0)
	}
	if a.Op == OBNot {
		return a.Args[0]
	}
	// negation normal form: push negations through and/or (bounded size)
	if (a.Op == OBAnd || a.Op == OBOr) && len(a.Args) <= 8 {
		neg := make([]*Term, len(a.Args))
		for i, x := range a.Args {
			neg[i] = c.BNot(x)
		}
		if a.Op == OBAnd {
			return c.BOr(neg...)
		}
		return c.BAnd(neg...)
	}
	return c.mk(&Term{Op: OBNot, S: SBool, Args: []*Term{a}})
}

func (c *Ctx) BAnd(args ...*Term) *Term {
	var out []*Term
	seen := map[int]bool{}
	for _, a := range args {
		if a.S.K != KBool {
			panic("BAnd non-bool")
		}
		if a.IsFalse() {
			return c.ff
		}
		if a.IsTrue() || seen[a.ID] {
			continue
		}
		if a.Op == OBAnd {
			for _, x := range a.Args {
				if !seen[x.ID] {
					seen[x.ID] = true
					out = append(out, x)
				}
			}
			continue
		}
		seen[a.ID] = true
		out = append(out, a)
	}
	for _, a := range out {
		if a.Op == OBNot && seen[a.Args[0].ID] {
			return c.ff
		}
	}
	if len(out) == 0 {
		return c.tt
	}
	if len(out) == 1 {
		return out[0]
	}
	sort.Slice(out, func(i, j int) bool { return out[i].ID < out[j].ID })
	return c.mk(&Term{Op: OBAnd, S: SBool, Args: out})
}

func (c *Ctx) BOr(args ...*Term) *Term {
	var out []*Term
	seen := map[int]bool{}
	for _, a := range args {
		if a.S.K != KBool {
			panic("BOr non-bool")
		}
		if a.IsTrue() {
			return c.tt
		}
		if a.IsFalse() || seen[a.ID] {
			continue
		}
		if a.Op == OBOr {
			for _, x := range a.Args {
				if !seen[x.ID] {
					seen[x.ID] = true
					out = append(out, x)
				}
			}
			continue
		}
		seen[a.ID] = true
		out = append(out, a)
	}
	for _, a := range out {
		if a.Op == OBNot && seen[a.Args[0].ID] {
			return c.tt
		}
		// x or (not-x1 and not-x2 ...) where x1, x2.. are all disjuncts present: tautology
		if a.Op == OBAnd {
			all := true
			for _, l := range a.Args {
				if !seen[c.BNot(l).ID] {
					all = false
					break
				}
			}
			if all {
				return c.tt
			}
		}
	}
	if len(out) >= 2 && len(out) <= 6 {
		// absorption  a or (not-a and b) = a or b ;  (X and l) or (X and not-l) = X
		for i, a := range out {
			if a.Op != OBAnd {
				continue
			}
			for _, l := range a.Args {
				nl := c.BNot(l)
				if seen[nl.ID] {
					rest := []*Term{}
					for _, x := range a.Args {
						if x != l {
							rest = append(rest, x)
						}
					}
					no := append([]*Term{}, out[:i]...)
					no = append(no, out[i+1:]...)
					no = append(no, c.BAnd(rest...))
					return c.BOr(no...)
				}
			}
			for k := i + 1; k < len(out); k++ {
				b := out[k]
				if b.Op != OBAnd || len(b.Args) != len(a.Args) {
					continue
				}
				inB := map[int]bool{}
				for _, x := range b.Args {
					inB[x.ID] = true
				}
				var diff *Term
				nd := 0
				for _, x := range a.Args {
					if !inB[x.ID] {
						diff = x
						nd++
					}
				}
				if nd == 1 && inB[c.BNot(diff).ID] {
					common := []*Term{}
					for _, x := range a.Args {
						if x != diff {
							common = append(common, x)
						}
					}
					no := []*Term{}
					for q, x := range out {
						if q != i && q != k {
							no = append(no, x)
						}
					}
					no = append(no, c.BAnd(common...))
					return c.BOr(no...)
				}
			}
		}
	}
	if len(out) == 0 {
		return c.ff
	}
	if len(out) == 1 {
		return out[0]
	}
	sort.Slice(out, func(i, j int) bool { return out[i].ID < out[j].ID })
	return c.mk(&Term{Op: OBOr, S: SBool, Args: out})
}

func (c *Ctx) Implies(a, b *Term) *Term { return c.BOr(c.BNot(a), b) }

func (c *Ctx) Ite(g, a, b *Term) *Term {
	c.chk(a, b)
	if g.IsTrue() {
		return a
	}
	if g.IsFalse() {
		return b
	}
	if a == b {
		return a
	}
	if a.S.K == KBool {
		if a.IsTrue() && b.IsFalse() {
			return g
		}
		if a.IsFalse() && b.IsTrue() {
			return c.BNot(g)
		}
		if a.IsTrue() {
			return c.BOr(g, b)
		}
		if a.IsFalse() {
			return c.BAnd(c.BNot(g), b)
		}
		if b.IsTrue() {
			return c.BOr(c.BNot(g), a)
		}
		if b.IsFalse() {
			return c.BAnd(g, a)
		}
	}
	if g.Op == OBNot {
		return c.Ite(g.Args[0], b, a)
	}
	// ite(g, x, ite(g, y, z)) = ite(g,x,z)
	if b.Op == OIte && b.Args[0] == g {
		return c.Ite(g, a, b.Args[2])
	}
	if a.Op == OIte && a.Args[0] == g {
		return c.Ite(g, a.Args[1], b)
	}
	return c.mk(&Term{Op: OIte, S: a.S, Args: []*Term{g, a, b}})
}

// ---- Int theory ----

func (c *Ctx) IntOp(op Op, a, b *Term) *Term {
	if a.S.K != KInt || b.S.K != KInt {
		panic("IntOp on non-int")
	}
	if a.IsConst() && b.IsConst() {
		r := new(big.Int)
		switch op {
		case OIAdd:
			return c.Int(r.Add(a.Big, b.Big))
		case OISub:
			return c.Int(r.Sub(a.Big, b.Big))
		case OIMul:
			return c.Int(r.Mul(a.Big, b.Big))
		case OIDiv:
			if b.Big.Sign() != 0 {
				m := new(big.Int)
				r.DivMod(a.Big, b.Big, m) // Euclidean, as SMT-LIB
				return c.Int(r)
			}
		case OIMod:
			if b.Big.Sign() != 0 {
				return c.Int(r.Mod(a.Big, b.Big))
			}
		case OILt:
			return c.Bool(a.Big.Cmp(b.Big) < 0)
		case OILe:
			return c.Bool(a.Big.Cmp(b.Big) <= 0)
		}
	}
	switch op {
	case OIAdd:
		if a.isZero() {
			return b
		}
		if b.isZero() {
			return a
		}
	case OISub:
		if b.isZero() {
			return a
		}
	case OIMul:
		if a.isZero() || b.isZero() {
			return c.IntI(0)
		}
		if a.isOne() {
			return b
		}
		if b.isOne() {
			return a
		}
	case OILt, OILe:
		return c.bin(op, SBool, a, b)
	}
	return c.bin(op, SInt, a, b)
}

func (c *Ctx) BV2Int(a *Term) *Term {
	if a.IsConst() {
		return c.Int(a.BigVal())
	}
	if a.Op == OInt2BV {
		return c.IntOp(OIMod, a.Args[0], c.Int(new(big.Int).Lsh(big.NewInt(1), uint(a.S.W))))
	}
	return c.mk(&Term{Op: OBV2Int, S: SInt, Args: []*Term{a}})
}

func (c *Ctx) Int2BV(a *Term, w int) *Term {
	if a.IsConst() {
		return c.BVBig(w, a.Big)
	}
	return c.mk(&Term{Op: OInt2BV, S: SBV(w), Args: []*Term{a}, A: w})
}

// ---- printing ----

func constStr(t *Term) string {
	switch t.S.K {
	case KBool:
		if t.U == 1 {
			return "true"
		}
		return "false"
	case KBV:
		if t.S.W%4 == 0 {
			s := t.BigVal().Text(16)
			return "#x" + strings.Repeat("0", t.S.W/4-len(s)) + s
		}
		s := t.BigVal().Text(2)
		return "#b" + strings.Repeat("0", t.S.W-len(s)) + s
	case KInt:
		if t.Big.Sign() < 0 {
			return "(- " + new(big.Int).Neg(t.Big).String() + ")"
		}
		return t.Big.String()
	}
	panic("const sort")
}

func smtName(n string) string {
	ok := true
	for _, r := range n {
		if !(r >= 'a' && r <= 'z' || r >= 'A' && r <= 'Z' || r >= '0' && r <= '9' || r == '_' || r == '.' || r == '!' || r == '$') {
			ok = false
		}
	}
	if ok && n != "" {
		return n
	}
	return "|" + strings.ReplaceAll(strings.ReplaceAll(n, "|", "!"), "\\", "!") + "|"
}

// ref returns how a term is referenced inside another expression.
func ref(t *Term) string {
	switch t.Op {
	case OConst:
		return constStr(t)
	case OVar:
		return smtName(t.Name)
	}
	return fmt.Sprintf("t!%d", t.ID)
}

// body returns the defining s-expression of a non-leaf term.
func body(t *Term) string {
	var sb strings.Builder
	switch t.Op {
	case OExtract:
		fmt.Fprintf(&sb, "((_ extract %d %d) %s)", t.A, t.B, ref(t.Args[0]))
		return sb.String()
	case OZExt:
		fmt.Fprintf(&sb, "((_ zero_extend %d) %s)", t.A, ref(t.Args[0]))
		return sb.String()
	case OSExt:
		fmt.Fprintf(&sb, "((_ sign_extend %d) %s)", t.A, ref(t.Args[0]))
		return sb.String()
	case OBV2Int:
		return "(bv2nat " + ref(t.Args[0]) + ")"
	case OInt2BV:
		return fmt.Sprintf("((_ int2bv %d) %s)", t.A, ref(t.Args[0]))
	case OApp:
		sb.WriteString("(" + smtName(t.Name))
	default:
		n, ok := opName[t.Op]
		if !ok {
			panic(fmt.Sprintf("no smt name for op %d", t.Op))
		}
		sb.WriteString("(" + n)
	}
	for _, a := range t.Args {
		sb.WriteString(" " + ref(a))
	}
	sb.WriteString(")")
	return sb.String()
}

// String renders a term fully inlined (for diagnostics; may be large).
func (t *Term) String() string {
	return t.str(0)
}

func (t *Term) str(d int) string {
	if t.Op == OConst || t.Op == OVar {
		return ref(t)
	}
	if d > 6 {
		return fmt.Sprintf("t!%d", t.ID)
	}
	var sb strings.Builder
	switch t.Op {
	case OExtract:
		return fmt.Sprintf("((_ extract %d %d) %s)", t.A, t.B, t.Args[0].str(d+1))
	case OZExt:
		return fmt.Sprintf("(zext%d %s)", t.A, t.Args[0].str(d+1))
	case OSExt:
		return fmt.Sprintf("(sext%d %s)", t.A, t.Args[0].str(d+1))
	case OBV2Int:
		return "(bv2nat " + t.Args[0].str(d+1) + ")"
	case OInt2BV:
		return fmt.Sprintf("(int2bv%d %s)", t.A, t.Args[0].str(d+1))
	case OApp:
		sb.WriteString("(" + t.Name)
	default:
		sb.WriteString("(" + opName[t.Op])
	}
	for _, a := range t.Args {
		sb.WriteString(" " + a.str(d+1))
	}
	sb.WriteString(")")
	return sb.String()
}

var debugLift = os.Getenv("SYMGO_DEBUG") == "3"

// LiftIte applies f to the constant leaves of an if-then-else tree (f(ite(c,a,b)) = ite(c,f(a),f(b)));
// returns nil if t is not such a tree (or is too large).
func (c *Ctx) LiftIte(t *Term, f func(leaf *Term) *Term) *Term {
	memo := map[int]*Term{}
	count := 0
	var rec func(x *Term) *Term
	rec = func(x *Term) *Term {
		if r, ok := memo[x.ID]; ok {
			return r
		}
		var r *Term
		switch {
		case x.IsConst():
			r = f(x)
		case x.Op == OIte:
			count++
			if count > 2000 {
				return nil
			}
			a := rec(x.Args[1])
			if a == nil {
				return nil
			}
			b := rec(x.Args[2])
			if b == nil {
				return nil
			}
			r = c.Ite(x.Args[0], a, b)
		default:
			if debugLift {
				println("LiftIte: non-constant leaf", x.String())
			}
			return nil
		}
		memo[x.ID] = r
		return r
	}
	if t.Op != OIte {
		return nil
	}
	return rec(t)
}
