package sym

import (
	"fmt"
	"go/types"

	"golang.org/x/tools/go/ssa"
)

// Value is a symbolic Go value:
//
//	*Term      scalars (bool, ints, floats as bit patterns)
//	Ptr        pointer (object id + path)
//	SliceV     slice header over an array stored in an object
//	StringV    immutable byte vector
//	*StructV   struct value, *ArrayV array value
//	IfaceV     interface value (dynamic type + value)
//	*FuncV     function value / closure
//	TupleV     multiple results
//	MapV       reference to a map object
//	*BigV, *HashV, ... model values (see models)
type Value interface{}

// PE is one step of a pointer path: element/field I, or I+Sym with 0<=Sym<N.
type PE struct {
	I   int
	Sym *Term
	N   int
}

type Ptr struct {
	Obj  int // 0 = nil
	Path []PE
}

type SliceV struct {
	Obj           int // 0 = nil slice
	Path          []PE
	Off, Len, Cap int
}

type StringV struct{ B []*Term }

type StructV struct{ F []Value }
type ArrayV struct{ E []Value }

type IfaceV struct {
	T types.Type // nil = nil interface
	V Value
}

type FuncV struct {
	Fn      *ssa.Function
	Bind    []Value
	Builtin *ssa.Builtin
	Native  ModelFn
}

type TupleV []Value

type MapV struct{ Obj int } // 0 = nil map

type MapObj struct {
	Keys []string
	K    map[string]Value // canonical key -> key value
	V    map[string]Value
}

// Poison marks a value produced by something we could not execute (only
// tolerated while running package initialisers); any use is an error.
type Poison struct{ Why string }

type Object struct {
	V     Value
	Owner int
	Type  types.Type
}

func appendPath(p []PE, e PE) []PE {
	np := make([]PE, len(p)+1)
	copy(np, p)
	np[len(p)] = e
	return np
}

func deepCopy(v Value) Value {
	switch x := v.(type) {
	case *StructV:
		n := &StructV{F: make([]Value, len(x.F))}
		for i, f := range x.F {
			n.F[i] = deepCopy(f)
		}
		return n
	case *ArrayV:
		n := &ArrayV{E: make([]Value, len(x.E))}
		for i, f := range x.E {
			n.E[i] = deepCopy(f)
		}
		return n
	case *MapObj:
		n := &MapObj{Keys: append([]string{}, x.Keys...), K: map[string]Value{}, V: map[string]Value{}}
		for k, v := range x.K {
			n.K[k] = v
		}
		for k, v := range x.V {
			n.V[k] = deepCopy(v)
		}
		return n
	case copier:
		return x.Copy()
	}
	return v
}

// copier is implemented by mutable model values.
type copier interface{ Copy() Value }

func pathEq(a, b []PE) bool {
	if len(a) != len(b) {
		return false
	}
	for i := range a {
		if a[i] != b[i] {
			return false
		}
	}
	return true
}

// valuesIdentical: structural identity (same terms), used by merging.
func valuesIdentical(a, b Value) bool {
	switch x := a.(type) {
	case nil:
		return b == nil
	case *Term:
		y, ok := b.(*Term)
		return ok && x == y
	case Ptr:
		y, ok := b.(Ptr)
		return ok && x.Obj == y.Obj && pathEq(x.Path, y.Path)
	case SliceV:
		y, ok := b.(SliceV)
		return ok && x.Obj == y.Obj && x.Off == y.Off && x.Len == y.Len && x.Cap == y.Cap && pathEq(x.Path, y.Path)
	case StringV:
		y, ok := b.(StringV)
		if !ok || len(x.B) != len(y.B) {
			return false
		}
		for i := range x.B {
			if x.B[i] != y.B[i] {
				return false
			}
		}
		return true
	case *StructV:
		y, ok := b.(*StructV)
		if !ok || len(x.F) != len(y.F) {
			return false
		}
		for i := range x.F {
			if !valuesIdentical(x.F[i], y.F[i]) {
				return false
			}
		}
		return true
	case *ArrayV:
		y, ok := b.(*ArrayV)
		if !ok || len(x.E) != len(y.E) {
			return false
		}
		for i := range x.E {
			if !valuesIdentical(x.E[i], y.E[i]) {
				return false
			}
		}
		return true
	case IfaceV:
		y, ok := b.(IfaceV)
		if !ok {
			return false
		}
		if x.T == nil || y.T == nil {
			return x.T == nil && y.T == nil
		}
		return types.Identical(x.T, y.T) && valuesIdentical(x.V, y.V)
	case *FuncV:
		y, ok := b.(*FuncV)
		if !ok || x.Fn != y.Fn || x.Builtin != y.Builtin || len(x.Bind) != len(y.Bind) {
			return false
		}
		for i := range x.Bind {
			if !valuesIdentical(x.Bind[i], y.Bind[i]) {
				return false
			}
		}
		return true
	case TupleV:
		y, ok := b.(TupleV)
		if !ok || len(x) != len(y) {
			return false
		}
		for i := range x {
			if !valuesIdentical(x[i], y[i]) {
				return false
			}
		}
		return true
	case MapV:
		y, ok := b.(MapV)
		return ok && x == y
	case identical:
		return x.Identical(b)
	}
	return false
}

type identical interface{ Identical(Value) bool }

// mergeVal builds ite(g, a, b) structurally; ok=false if not expressible.
func (c *Ctx) mergeVal(g *Term, a, b Value) (Value, bool) {
	if valuesIdentical(a, b) {
		return a, true
	}
	switch x := a.(type) {
	case *Term:
		y, ok := b.(*Term)
		if !ok || x.S != y.S {
			return nil, false
		}
		return c.Ite(g, x, y), true
	case StringV:
		y, ok := b.(StringV)
		if !ok || len(x.B) != len(y.B) {
			return nil, false
		}
		n := StringV{B: make([]*Term, len(x.B))}
		for i := range x.B {
			n.B[i] = c.Ite(g, x.B[i], y.B[i])
		}
		return n, true
	case *StructV:
		y, ok := b.(*StructV)
		if !ok || len(x.F) != len(y.F) {
			return nil, false
		}
		n := &StructV{F: make([]Value, len(x.F))}
		for i := range x.F {
			v, ok := c.mergeVal(g, x.F[i], y.F[i])
			if !ok {
				return nil, false
			}
			n.F[i] = v
		}
		return n, true
	case *ArrayV:
		y, ok := b.(*ArrayV)
		if !ok || len(x.E) != len(y.E) {
			return nil, false
		}
		n := &ArrayV{E: make([]Value, len(x.E))}
		for i := range x.E {
			v, ok := c.mergeVal(g, x.E[i], y.E[i])
			if !ok {
				return nil, false
			}
			n.E[i] = v
		}
		return n, true
	case IfaceV:
		y, ok := b.(IfaceV)
		if !ok || x.T == nil || y.T == nil || !types.Identical(x.T, y.T) {
			return nil, false
		}
		v, ok := c.mergeVal(g, x.V, y.V)
		if !ok {
			return nil, false
		}
		return IfaceV{T: x.T, V: v}, true
	case TupleV:
		y, ok := b.(TupleV)
		if !ok || len(x) != len(y) {
			return nil, false
		}
		n := make(TupleV, len(x))
		for i := range x {
			v, ok := c.mergeVal(g, x[i], y[i])
			if !ok {
				return nil, false
			}
			n[i] = v
		}
		return n, true
	case merger:
		return x.Merge(c, g, b)
	}
	return nil, false
}

type merger interface {
	Merge(c *Ctx, g *Term, other Value) (Value, bool)
}

func describe(v Value) string {
	switch x := v.(type) {
	case *Term:
		s := x.String()
		if len(s) > 200 {
			s = s[:200] + "..."
		}
		return s
	case StringV:
		bs := make([]byte, 0, len(x.B))
		for _, b := range x.B {
			if b.IsConst() {
				bs = append(bs, byte(b.U))
			} else {
				bs = append(bs, '?')
			}
		}
		return fmt.Sprintf("%q", bs)
	}
	return fmt.Sprintf("%T%v", v, v)
}
