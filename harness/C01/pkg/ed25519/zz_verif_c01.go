//go:build verif

package ed25519

import (
	stded "crypto/ed25519"
	"crypto/sha512"
	"encoding/hex"
	"math/big"

	"filippo.io/edwards25519"
)

var verifL, _ = new(big.Int).SetString("7237005577332262213973186563042994240857116359379907606001950938285454250989", 10)

func verifLE(b []byte) *big.Int {
	rev := make([]byte, len(b))
	for i := range b {
		rev[len(b)-1-i] = b[i]
	}
	return new(big.Int).SetBytes(rev)
}

// VerifC01ScalarGate: the real edwards25519 SetCanonicalBytes (executed from its source, no model)
// accepts exactly the 32-byte strings whose little-endian value is below the group order L, and
// Verify's early test sig[63]&224 never rejects such a value. Hence S + j*L (j >= 1) is rejected
// whenever it fits 256 bits.
//
//verif:noedwards
//verif:big bv 300
func VerifC01ScalarGate() {
	b := verifBytes("s", 32)
	_, err := edwards25519.NewScalar().SetCanonicalBytes(b)
	v := verifLE(b)
	verifAssert("canonical.iff.below.L", (err == nil) == (v.Cmp(verifL) < 0))
	if b[31]&224 != 0 {
		verifAssert("precheck.sound", v.Cmp(verifL) >= 0)
	}
	verifAssert("L.value", verifL.BitLen() == 253)
}

// VerifC01Length: a signature of any other length than 64 is rejected (no panic).
//
//verif:run quick n=0,1,32,63,65,66
func VerifC01Length(n int) {
	pk := verifBytes("pk", 32)
	msg := verifBytes("msg", 2)
	sig := verifBytes("sig", n)
	verifAssert("length", !Verify(pk, msg, sig))
}

// VerifC01Verify: in the algebraic group model, Verify(pk, msg, sig) is true exactly when S is
// canonical, pk and R decode, and [8][S]B = [8]R + [8][k]A with k = SHA-512(R || pk || msg) over
// the bytes as given; and everything crypto/ed25519 accepts is accepted.
//
//verif:run quick ml=0,3
//verif:run thorough ml=1,32
//verif:big int
func VerifC01Verify(ml int) {
	pk := verifBytes("pk", 32)
	msg := verifBytes("msg", ml)
	sig := verifBytes("sig", 64)
	got := Verify(pk, msg, sig)

	// reference: the ZIP-215 acceptance condition written with the library primitives in the
	// order of the specification
	want := false
	A, errA := new(edwards25519.Point).SetBytes(pk)
	R, errR := new(edwards25519.Point).SetBytes(sig[:32])
	S, errS := edwards25519.NewScalar().SetCanonicalBytes(sig[32:])
	if errA == nil && errR == nil && errS == nil {
		h := sha512.New()
		h.Write(sig[:32])
		h.Write(pk)
		h.Write(msg)
		k, _ := edwards25519.NewScalar().SetUniformBytes(h.Sum(nil))
		lhs := new(edwards25519.Point).ScalarBaseMult(S)
		lhs.MultByCofactor(lhs)
		r8 := new(edwards25519.Point).MultByCofactor(R)
		ka := new(edwards25519.Point).ScalarMult(k, A)
		ka.MultByCofactor(ka)
		rhs := new(edwards25519.Point).Add(r8, ka)
		want = lhs.Equal(rhs) == 1
	}
	verifAssert("verify.iff.zip215", got == want)
	if !verifSymbolic() {
		// native replay: counterexamples of the algebraic model are concretised by class
		verifNativeBank(pk, msg)
	}
	if stded.Verify(pk, msg, sig) {
		verifAssert("stdlib.accepted.implies.accepted", got)
	}
}

// verifNativeBank (replays only): real signatures built from the replayed bytes for each class
// of the ZIP-215 statement: honest, 8-torsion component in R, in A, S + L, wrong message.
func verifNativeBank(seed, msg []byte) {
	priv := NewKeyFromSeed(seed)
	pub := priv.Public().(PublicKey)
	sig := Sign(priv, msg)
	verifAssert("bank.honest", Verify(pub, msg, sig))
	verifAssert("bank.wrong.message", !Verify(pub, append([]byte{1}, msg...), sig))

	tb, _ := hex.DecodeString("26e8958fc2b227b045c3f489f2ef98f0d5dfac05d3c63339b13802886d53fc05")
	T, err := new(edwards25519.Point).SetBytes(tb)
	if err != nil {
		return
	}
	id := edwards25519.NewIdentityPoint()
	if new(edwards25519.Point).MultByCofactor(T).Equal(id) != 1 || T.Equal(id) == 1 {
		return
	}
	h := sha512.Sum512(seed)
	a, _ := edwards25519.NewScalar().SetBytesWithClamping(h[:32])
	mh := sha512.New()
	mh.Write(h[32:])
	mh.Write(msg)
	r, _ := edwards25519.NewScalar().SetUniformBytes(mh.Sum(nil))
	R0 := new(edwards25519.Point).ScalarBaseMult(r)
	A := new(edwards25519.Point).ScalarBaseMult(a)
	mk := func(R, Apt *edwards25519.Point) ([]byte, []byte) {
		pkb := Apt.Bytes()
		kh := sha512.New()
		kh.Write(R.Bytes())
		kh.Write(pkb)
		kh.Write(msg)
		k, _ := edwards25519.NewScalar().SetUniformBytes(kh.Sum(nil))
		S := edwards25519.NewScalar().MultiplyAdd(k, a, r)
		return pkb, append(append([]byte{}, R.Bytes()...), S.Bytes()...)
	}
	pk1, sig1 := mk(new(edwards25519.Point).Add(R0, T), A)
	verifAssert("bank.torsion.in.R", Verify(pk1, msg, sig1))
	pk2, sig2 := mk(R0, new(edwards25519.Point).Add(A, T))
	verifAssert("bank.torsion.in.A", Verify(pk2, msg, sig2))
	// S + L
	sv := verifLE(sig[32:])
	sv.Add(sv, verifL)
	if sv.BitLen() <= 256 {
		be := sv.FillBytes(make([]byte, 32))
		bad := append([]byte{}, sig[:32]...)
		for i := 31; i >= 0; i-- {
			bad = append(bad, be[i])
		}
		verifAssert("bank.S.plus.L", !Verify(pub, msg, bad))
	}
	// canonical S in the top window [2^252, L): with a small-order key (identity, order 8) the pair
	// (R = [S]B, S) satisfies the ZIP-215 equation for every message
	top := new(big.Int).Lsh(big.NewInt(1), 252)
	span := new(big.Int).Sub(verifL, top)
	off := new(big.Int).Mod(verifLE(seed), span)
	for _, sv := range []*big.Int{new(big.Int).Set(top), new(big.Int).Add(top, off), new(big.Int).Sub(verifL, big.NewInt(1))} {
		be := sv.FillBytes(make([]byte, 32))
		le := make([]byte, 32)
		for i := range be {
			le[31-i] = be[i]
		}
		sc, err := edwards25519.NewScalar().SetCanonicalBytes(le)
		if err != nil {
			continue
		}
		hs := append(new(edwards25519.Point).ScalarBaseMult(sc).Bytes(), le...)
		verifAssert("bank.high.S.identity.key", Verify(id.Bytes(), msg, hs))
		verifAssert("bank.high.S.order8.key", Verify(tb, msg, hs))
	}
}
