//go:build verif

package eddsa

import (
	"errors"

	"github.com/wollac/iota-crypto-demo/pkg/slip10"
)

// VerifC02Ed25519: ed25519 keys: the private key is I_L itself, Shift replaces the seed,
// non-hardened children (of private and public keys) and hardened children of public keys fail.
func VerifC02Ed25519() {
	b := verifBytes("il", 32)
	k, err := Ed25519().NewPrivateKey(b)
	verifAssert("newkey.ok", err == nil && k.IsPrivate())
	kb := k.Bytes()
	for i := range b {
		verifAssert("newkey.bytes", kb[i] == b[i])
	}
	sh := verifBytes("shift", 32)
	c, err := k.Shift(sh)
	verifAssert("shift.ok", err == nil)
	cb := c.Bytes()
	for i := range sh {
		verifAssert("shift.replaces", cb[i] == sh[i])
	}
	e := &slip10.ExtendedKey{ChainCode: verifBytes("chain", 32), Key: k}
	idx := verifU32("index")
	if idx < 1<<31 {
		child, derr := e.DeriveChild(idx)
		verifAssert("nonhardened.private.err", derr != nil && child == nil)
	}
	pk := PublicKey(verifBytes("pub", 32))
	pe := &slip10.ExtendedKey{ChainCode: e.ChainCode, Key: pk}
	child, derr := pe.DeriveChild(idx)
	verifAssert("public.err", derr != nil && child == nil)
	if idx >= 1<<31 {
		verifAssert("public.hardened.err", errors.Is(derr, slip10.ErrHardenedChildPublicKey))
	}
	_, serr := pk.Shift(sh)
	verifAssert("public.shift.err", errors.Is(serr, ErrNotHardened))
	pb := pk.Bytes()
	verifAssert("public.bytes", len(pb) == 33 && pb[0] == 0)
	verifAssert("hmackey", string(Ed25519().HmacKey()) == "ed25519 seed")
}
