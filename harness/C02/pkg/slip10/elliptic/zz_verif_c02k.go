//go:build verif

package elliptic

import (
	stdelliptic "crypto/elliptic"
	"errors"
	"math/big"

	"github.com/wollac/iota-crypto-demo/pkg/slip10"
)

// verifGroup: the contract of crypto/elliptic.Curve for a curve of prime order N, as the abstract
// cyclic group (Z_N, +): the point [d]G is represented as (d, 1), the point at infinity as (0, 0)
// (the representation crypto/elliptic prescribes); scalars of any value are reduced mod N.
type verifGroup struct{ params *stdelliptic.CurveParams }

func (g verifGroup) Params() *stdelliptic.CurveParams { return g.params }
func (g verifGroup) IsOnCurve(x, y *big.Int) bool    { return y.Sign() != 0 && x.Sign() > 0 && x.Cmp(g.params.N) < 0 }
func (g verifGroup) point(d *big.Int) (*big.Int, *big.Int) {
	if d.Sign() == 0 {
		return new(big.Int), new(big.Int)
	}
	return d, big.NewInt(1)
}
func (g verifGroup) dlog(x, y *big.Int) *big.Int {
	if y.Sign() == 0 {
		return new(big.Int)
	}
	return x
}
func (g verifGroup) Add(x1, y1, x2, y2 *big.Int) (*big.Int, *big.Int) {
	s := new(big.Int).Add(g.dlog(x1, y1), g.dlog(x2, y2))
	return g.point(s.Mod(s, g.params.N))
}
func (g verifGroup) Double(x1, y1 *big.Int) (*big.Int, *big.Int) { return g.Add(x1, y1, x1, y1) }
func (g verifGroup) ScalarBaseMult(k []byte) (*big.Int, *big.Int) {
	d := new(big.Int).SetBytes(k)
	return g.point(d.Mod(d, g.params.N))
}
func (g verifGroup) ScalarMult(x1, y1 *big.Int, k []byte) (*big.Int, *big.Int) {
	panic("not used by the key code")
}

func verifOrder(which int) *big.Int {
	n := new(big.Int)
	if which == 0 { // secp256k1
		n.SetString("FFFFFFFFFFFFFFFFFFFFFFFFFFFFFFFEBAAEDCE6AF48A03BBFD25E8CD0364141", 16)
	} else { // NIST P-256
		n.SetString("FFFFFFFF00000000FFFFFFFFFFFFFFFFBCE6FAADA7179E84F3B9CAC2FC632551", 16)
	}
	return n
}

// VerifC02NewPrivateKey: NewPrivateKey(b) is valid iff 0 < int(b) < N, and Bytes is the 32-byte
// big-endian form (SLIP-0010: the master secret / parse256(I_L) must be in [1, n-1]).
//
//verif:run quick curve=0..1
//verif:big bv 272
func VerifC02NewPrivateKey(curve int) {
	n := verifOrder(curve)
	p := new(big.Int)
	if curve == 0 {
		p.SetString("FFFFFFFFFFFFFFFFFFFFFFFFFFFFFFFFFFFFFFFFFFFFFFFFFFFFFFFEFFFFFC2F", 16)
	} else {
		p.SetString("FFFFFFFF00000001000000000000000000000000FFFFFFFFFFFFFFFFFFFFFFFF", 16)
	}
	c := Curve{verifGroup{&stdelliptic.CurveParams{P: p, N: n, B: big.NewInt(7), Gx: big.NewInt(1), Gy: big.NewInt(1), Name: "abstract", BitSize: 256}}}
	b := verifBytes("b", 32)
	v := new(big.Int).SetBytes(b)
	key, err := c.NewPrivateKey(b)
	valid := v.Sign() > 0 && v.Cmp(n) < 0
	verifAssert("newkey.iff", (err == nil) == valid)
	if err != nil {
		verifAssert("newkey.err", errors.Is(err, slip10.ErrInvalidKey) && key == nil)
		return
	}
	out := key.Bytes()
	verifAssert("bytes.len", len(out) == 32)
	if len(out) == 32 {
		for i := range out {
			verifAssert("bytes.be", out[i] == b[i])
		}
	}
}

// VerifC02PublicBytes: the serialized public key serP(P) of every point (x, y) is the 33 bytes
// (0x02 | y&1) || x as 32 big-endian bytes — also when x has leading zero bytes — and the public key of a
// private key serializes the same way; Public() of a public key is itself.
//
//verif:run quick curve=0..1
//verif:big bv 272
func VerifC02PublicBytes(curve int) {
	n := verifOrder(curve)
	c := Curve{verifGroup{&stdelliptic.CurveParams{P: n, N: n, B: big.NewInt(7), Gx: big.NewInt(1), Gy: big.NewInt(1), Name: "abstract", BitSize: 256}}}
	xb := verifBytes("x", 32)
	x := new(big.Int).SetBytes(xb)
	y := verifBig("y", 256)
	verifAssume(x.Sign() > 0 && x.Cmp(n) < 0 && y.Sign() != 0) // a point of the abstract group
	pub := &PublicKey{Curve: c.Curve, X: x, Y: y}
	out := pub.Bytes()
	verifAssert("serp.len", len(out) == 33)
	if len(out) != 33 {
		return
	}
	verifAssert("serp.prefix", out[0] == 2|byte(y.Bit(0)))
	same := true
	for i := 0; i < 32; i++ {
		if out[1+i] != xb[i] {
			same = false
		}
	}
	verifAssert("serp.x", same)
	verifAssert("serp.public.self", pub.Public() == slip10.Key(pub) && !pub.IsPrivate())
	// private key d: public point (d, 1) in the abstract group
	key, err := c.NewPrivateKey(xb)
	verifAssert("serp.private.ok", err == nil)
	if err == nil {
		pb := key.Public().Bytes()
		ok := len(pb) == 33 && pb[0] == 3
		for i := 0; ok && i < 32; i++ {
			if pb[1+i] != xb[i] {
				ok = false
			}
		}
		verifAssert("serp.private.public", ok)
	}
}
