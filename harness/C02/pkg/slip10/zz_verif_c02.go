//go:build verif

package slip10

import (
	"crypto/hmac"
	"crypto/sha256"
	"crypto/sha512"
	"errors"
	"fmt"

	"golang.org/x/crypto/ripemd160"
)

// ---- pluggable key / curve whose Shift / NewPrivateKey outcomes are chosen by the harness

var (
	verifErrOther   = errors.New("permanent curve error")
	verifInvalid    int      // number of leading attempts that yield ErrInvalidKey
	verifThenOther  bool     // the attempt after those yields verifErrOther instead of a key
	verifWrapped    bool     // ErrInvalidKey is returned wrapped
	verifShiftCalls [][]byte // arguments of Shift / NewPrivateKey, in order
)

type verifStubKey struct {
	id    int // 0 = parent, j+1 = key produced at attempt j
	priv  bool
	bytes []byte
	pub   []byte
}

func (k *verifStubKey) Bytes() []byte {
	if k.priv {
		return k.bytes
	}
	return k.pub
}
func (k *verifStubKey) IsPrivate() bool { return k.priv }
func (k *verifStubKey) Public() Key      { return &verifStubKey{id: k.id, priv: false, bytes: k.bytes, pub: k.pub} }
func (k *verifStubKey) Shift(b []byte) (Key, error) {
	return verifOutcome(b, k.priv)
}

func verifOutcome(b []byte, priv bool) (Key, error) {
	j := len(verifShiftCalls)
	verifShiftCalls = append(verifShiftCalls, append([]byte{}, b...))
	if j < verifInvalid {
		if verifWrapped {
			return nil, fmt.Errorf("attempt %d: %w", j, ErrInvalidKey)
		}
		return nil, ErrInvalidKey
	}
	if verifThenOther {
		return nil, verifErrOther
	}
	// the produced key is a deterministic (uninterpreted) function of the argument
	kb := sha256.Sum256(append([]byte{0xA0}, b...))
	pb := sha256.Sum256(append([]byte{0xA1}, b...))
	return &verifStubKey{id: j + 1, priv: priv, bytes: kb[:], pub: append([]byte{2}, pb[:]...)}, nil
}

type verifCurve struct{ hmacKey []byte }

func (verifCurve) Name() string                          { return "stub" }
func (c verifCurve) HmacKey() []byte                     { return c.hmacKey }
func (verifCurve) NewPrivateKey(b []byte) (Key, error)  { return verifOutcome(b, true) }

func verifHMAC(key []byte, parts ...[]byte) []byte {
	h := hmac.New(sha512.New, key)
	for _, p := range parts {
		h.Write(p)
	}
	return h.Sum(nil)
}

func verifEq(a, b []byte) bool {
	if len(a) != len(b) {
		return false
	}
	eq := true
	for i := range a {
		if a[i] != b[i] {
			eq = false
		}
	}
	return eq
}

func verifSetup(r int) {
	verifShiftCalls = nil
	verifInvalid = r
	verifThenOther = verifChoice("thenOther", 2) == 1
	verifWrapped = verifChoice("wrapped", 2) == 1
}

// VerifC02DeriveChild: one DeriveChild step with r invalid-key attempts first: HMAC inputs, retry
// rule, result triple, fingerprint, error handling (SLIP-0010 CKD over an uninterpreted HMAC).
//
//verif:run quick r=0..2 priv=0..1 hard=0..1
//verif:run thorough r=3..4 priv=0..1 hard=0..1
func VerifC02DeriveChild(r, priv, hard int) {
	verifSetup(r)
	chain := verifBytes("chain", 32)
	parent := &verifStubKey{id: 0, priv: priv == 1, bytes: verifBytes("k", 32), pub: verifBytes("pub", 33)}
	e := &ExtendedKey{ChainCode: chain, Key: parent}
	index := verifU32("index") &^ (1 << 31)
	if hard == 1 {
		index |= 1 << 31
	}
	ser := []byte{byte(index >> 24), byte(index >> 16), byte(index >> 8), byte(index)}

	child, err := e.DeriveChild(index)

	if index >= 1<<31 && priv == 0 {
		verifAssert("hardened.public.err", errors.Is(err, ErrHardenedChildPublicKey) && child == nil)
		verifAssert("hardened.public.noshift", len(verifShiftCalls) == 0)
		return
	}
	// reference intermediate values
	var inter []byte
	if index >= 1<<31 {
		inter = verifHMAC(chain, []byte{0}, parent.bytes, ser)
	} else {
		inter = verifHMAC(chain, parent.pub, ser)
	}
	verifAssert("attempts", len(verifShiftCalls) == r+1)
	if len(verifShiftCalls) != r+1 {
		return
	}
	for j := 0; j <= r; j++ {
		verifAssert("shift.arg", verifEq(verifShiftCalls[j], inter[:32]))
		if j < r {
			inter = verifHMAC(chain, []byte{1}, inter[32:], ser)
		}
	}
	if verifThenOther {
		verifAssert("other.err.returned", child == nil && errors.Is(err, verifErrOther))
		return
	}
	verifAssert("noerr", err == nil && child != nil)
	if err != nil || child == nil {
		return
	}
	ck, ok := child.Key.(*verifStubKey)
	verifAssert("child.key", ok && ck.id == r+1 && ck.priv == (priv == 1))
	verifAssert("child.chain", verifEq(child.ChainCode, inter[32:]))
	verifAssert("child.parent", child.parent == Key(parent))
	// fingerprint: first 4 bytes of RIPEMD160(SHA256(serialized parent public key))
	h1 := sha256.Sum256(parent.pub)
	h2 := ripemd160.New()
	h2.Write(h1[:])
	verifAssert("fingerprint", verifEq(child.Fingerprint(), h2.Sum(nil)[:4]))
	// public and private derivation share chain code and fingerprint on non-hardened indices
	if priv == 1 {
		pe := child.Public()
		verifAssert("public.view", verifEq(pe.ChainCode, child.ChainCode) && verifEq(pe.Fingerprint(), child.Fingerprint()) && !pe.IsPrivate())
	}
}

// VerifC02MasterKey: NewMasterKey = HMAC(curve key, seed) with the SLIP-0010 retry S <- I, and a
// curve error other than invalid-key is returned, not retried.
//
//verif:run quick r=0..2
//verif:run thorough r=3..4
func VerifC02MasterKey(r int) {
	verifSetup(r)
	curve := verifCurve{hmacKey: verifBytes("hmackey", 12)}
	// the seed is a view into a larger buffer of the caller (capacity beyond one HMAC output): neither the
	// seed nor anything behind it may be written
	seedBuf := verifBytes("seed", 96)
	seedBuf0 := append([]byte{}, seedBuf...)
	seed := seedBuf[:16]
	seed0 := append([]byte{}, seed...)
	m, err := NewMasterKey(seed, curve)
	verifAssert("seed.buffer.unchanged", verifEq(seedBuf, seedBuf0))
	verifAssert("attempts", len(verifShiftCalls) == r+1)
	if len(verifShiftCalls) != r+1 {
		return
	}
	inter := verifHMAC(curve.hmacKey, seed0)
	for j := 0; j <= r; j++ {
		verifAssert("newkey.arg", verifEq(verifShiftCalls[j], inter[:32]))
		if j < r {
			inter = verifHMAC(curve.hmacKey, inter)
		}
	}
	if verifThenOther {
		verifAssert("other.err.returned", m == nil && errors.Is(err, verifErrOther))
		return
	}
	verifAssert("noerr", err == nil && m != nil)
	if err != nil || m == nil {
		return
	}
	ck, ok := m.Key.(*verifStubKey)
	verifAssert("master.key", ok && ck.id == r+1)
	verifAssert("master.chain", verifEq(m.ChainCode, inter[32:]))
	verifAssert("master.fingerprint", verifEq(m.Fingerprint(), []byte{0, 0, 0, 0}))
	verifAssert("seed.unchanged", verifEq(seed, seed0))
}

// VerifC02Path: deriving along p then i equals deriving along p followed by DeriveChild(i).
//
//verif:run quick n=0..2
//verif:run thorough n=3
func VerifC02Path(n int) {
	verifShiftCalls, verifInvalid, verifThenOther, verifWrapped = nil, 0, false, false
	curve := verifCurve{hmacKey: verifBytes("hmackey", 12)}
	seed := verifBytes("seed", 16)
	path := make([]uint32, n+1)
	for i := range path {
		path[i] = verifU32("idx") | 1<<31
	}
	full, err1 := DeriveKeyFromPath(seed, curve, path)
	verifShiftCalls = nil
	pre, err2 := DeriveKeyFromPath(seed, curve, path[:n])
	verifAssert("noerr", err1 == nil && err2 == nil)
	if err1 != nil || err2 != nil {
		return
	}
	last, err3 := pre.DeriveChild(path[n])
	verifAssert("step.noerr", err3 == nil)
	if err3 == nil {
		verifAssert("compose.chain", verifEq(full.ChainCode, last.ChainCode))
		verifAssert("compose.depth", full.Key.(*verifStubKey).id == last.Key.(*verifStubKey).id)
	}
}
