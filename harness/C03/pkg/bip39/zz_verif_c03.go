//go:build verif

package bip39

import (
	"crypto/sha256"
	"errors"
)

// verifList: a concrete word list meeting the wordlist.List contract: word i is the two ASCII
// bytes 0x40+(i>>6), 0x40+(i&63) (so the list contains upper- and lower-case letters and
// punctuation). The contents of the built-in English/Japanese lists are outside.
type verifList struct{}

// verifWordValue: index of a two-byte word, >= 2048 if it is not in the list.
func verifWordValue(w string) int {
	a, b := int(w[0]), int(w[1])
	if a < 0x40 || a > 0x5F || b < 0x40 || b > 0x7F {
		return 4096
	}
	return (a-0x40)<<6 | (b - 0x40)
}

func (verifList) Contains(w string) bool { return len(w) == 2 && verifWordValue(w) < 2048 }
func (verifList) Word(i int) string {
	if i < 0 || i >= 2048 {
		panic("index out of range")
	}
	return string([]byte{byte(0x40 + i>>6), byte(0x40 + i&63)})
}
func (l verifList) Index(w string) int {
	if !l.Contains(w) {
		panic("unknown word")
	}
	return verifWordValue(w)
}

// bit k (MSB first) of entropy || sha256(entropy)
func verifBit(entropy []byte, hash [32]byte, k int) int {
	if k < 8*len(entropy) {
		return int(entropy[k/8]>>uint(7-k%8)) & 1
	}
	k -= 8 * len(entropy)
	return int(hash[k/8]>>uint(7-k%8)) & 1
}

func verifBytesEq(a, b []byte) bool {
	if len(a) != len(b) {
		return false
	}
	eq := true
	for i := range a {
		if a[i] != b[i] {
			eq = false
		}
	}
	return eq
}

// VerifC03Encode: EntropyToMnemonic yields the BIP-39 sentence and MnemonicToEntropy inverts it,
// for every entropy of n bytes.
//
//verif:run quick n=16
//verif:run thorough n=20,24,28,32,36,40,44,48,52,56,60,64
//verif:big bv 640
//verif:timeout 300
func VerifC03Encode(n int) {
	wordList = verifList{}
	entropy := verifBytes("entropy", n)
	m, err := EntropyToMnemonic(entropy)
	verifAssert("enc.noerr", err == nil)
	if err != nil {
		return
	}
	nw := (8*n + n/4) / 11
	verifAssert("enc.words", len(m) == nw)
	if len(m) != nw {
		return
	}
	hash := sha256.Sum256(entropy)
	for j := 0; j < nw; j++ {
		idx := 0
		for b := 0; b < 11; b++ {
			idx = idx<<1 | verifBit(entropy, hash, 11*j+b)
		}
		verifAssert("enc.word", len(m[j]) == 2 && verifWordValue(m[j]) == idx)
	}
	back, err2 := MnemonicToEntropy(m)
	verifAssert("rt.noerr", err2 == nil)
	if err2 == nil {
		verifAssert("rt.equal", verifBytesEq(back, entropy))
	}
}

// VerifC03EntropySize: every other entropy size is rejected with ErrInvalidEntropySize.
//
//verif:run quick n=0..70
//verif:big bv 640
func VerifC03EntropySize(n int) {
	wordList = verifList{}
	if n%4 == 0 && n >= 16 && n <= 64 {
		return
	}
	m, err := EntropyToMnemonic(make([]byte, n))
	verifAssert("size.rejected", m == nil && errors.Is(err, ErrInvalidEntropySize))
}

// VerifC03Decode: MnemonicToEntropy on every sequence of nw two-byte words.
//
//verif:run quick nw=0,1,11,12,13,15,49
//verif:run thorough nw=14,24,51,48,18,21,27,30,33,36,39,42,45,50
//verif:big bv 640
//verif:timeout 300
func VerifC03Decode(nw int) {
	verifDecodeBody(nw, 0)
}

// VerifC03DecodeLong: sentences of 36..48 words (checksums of 12..16 bits, which reach into the
// second-to-last word) with the last `free` words arbitrary and the others fixed: the same obligations
// as VerifC03Decode. Native replays add a wrong-checksum bank: the sentence is first made valid with the
// real SHA-256, then every single checksum bit is flipped and must be refused with ErrInvalidChecksum.
//
//verif:run quick nw=36,48 free=2
//verif:run thorough nw=39,42,45 free=3
//verif:big bv 640
//verif:timeout 300
func VerifC03DecodeLong(nw, free int) {
	verifDecodeBody(nw, nw-free)
}

func verifDecodeBody(nw, fixed int) {
	wordList = verifList{}
	m := make(Mnemonic, nw)
	known := true
	for j := range m {
		if j < fixed {
			m[j] = verifList{}.Word((j*37 + 11) % 2048)
			continue
		}
		m[j] = verifString("word", 2)
		verifAssume(m[j][0] < 0x80 && m[j][1] < 0x80)
	}
	if !verifSymbolic() && nw%3 == 0 && nw >= 12 && nw <= 48 {
		verifWrongChecksumBank(m)
	}
	if verifVariant() == 1 && nw%3 == 0 && nw >= 12 && nw <= 48 {
		verifRepairChecksum(m) // native replay, second attempt: make the sentence valid for the real SHA-256
	}
	for j := range m {
		if verifWordValue(m[j]) >= 2048 {
			known = false
		}
	}
	countOK := nw%3 == 0 && nw >= 12 && nw <= 48
	ent := nw * 11 * 32 / 33 / 8 // entropy bytes
	var ref []byte
	sumOK := false
	if countOK {
		// reference: first ENT bits are the entropy, the remaining ENT/32 bits the checksum
		bit := func(k int) byte { return byte(verifWordValue(m[k/11])>>uint(10-k%11)) & 1 }
		ref = make([]byte, ent)
		for k := 0; k < 8*ent; k++ {
			ref[k/8] |= bit(k) << uint(7-k%8)
		}
		hash := sha256.Sum256(ref)
		sumOK = true
		for k := 0; k < ent/4; k++ {
			if bit(8*ent+k) != (hash[k/8]>>uint(7-k%8))&1 {
				sumOK = false
			}
		}
	}
	var got []byte
	var err error
	panicked := verifPanics(func() { got, err = MnemonicToEntropy(m) })
	verifAssert("nopanic", !panicked)
	if panicked {
		return
	}
	ok := countOK && known && sumOK
	verifAssert("accept.iff.valid", (err == nil) == ok)
	if err != nil {
		verifAssert("err.nil.entropy", got == nil)
		if !countOK || !known {
			verifAssert("err.mnemonic", errors.Is(err, ErrInvalidMnemonic))
		} else {
			verifAssert("err.checksum", errors.Is(err, ErrInvalidChecksum))
		}
		return
	}
	if !ok {
		return
	}
	verifReach("accepted")
	verifAssert("dec.entropy", verifBytesEq(got, ref))
	re, rerr := EntropyToMnemonic(got)
	verifAssert("reencode.noerr", rerr == nil && len(re) == nw)
	if rerr == nil && len(re) == nw {
		for j := range re {
			verifAssert("reencode.word", re[j] == m[j])
		}
	}
}

// verifWrongChecksumBank (replays only): every single-bit corruption of the real checksum is refused.
func verifWrongChecksumBank(m0 Mnemonic) {
	m := append(Mnemonic{}, m0...)
	for j := range m {
		if verifWordValue(m[j]) >= 2048 {
			return
		}
	}
	verifRepairChecksum(m)
	_, err := MnemonicToEntropy(m)
	verifAssert("bank.valid.accepted", err == nil)
	nw := len(m)
	ent := nw * 11 * 32 / 33 / 8
	for k := 0; k < ent/4; k++ {
		pos := 8*ent + k
		w := append(Mnemonic{}, m...)
		w[pos/11] = verifList{}.Word(verifWordValue(w[pos/11]) ^ 1<<uint(10-pos%11))
		_, err := MnemonicToEntropy(w)
		verifAssert("bank.wrong.checksum.rejected", errors.Is(err, ErrInvalidChecksum))
	}
}

// verifListU: verifList with word 5 replaced by a word that is not ASCII, in its NFKD form.
type verifListU struct{ verifList }

const verifUWord = "e\u0301x" // NFKD form; the composed spelling "\u00e9x" is a different string

func (l verifListU) Contains(w string) bool {
	if w == verifUWord {
		return true
	}
	return l.verifList.Contains(w) && verifWordValue(w) != 5
}
func (l verifListU) Word(i int) string {
	if i == 5 {
		return verifUWord
	}
	return l.verifList.Word(i)
}
func (l verifListU) Index(w string) int {
	if w == verifUWord {
		return 5
	}
	if !l.Contains(w) {
		panic("unknown word")
	}
	return verifWordValue(w)
}

// VerifC03DecodeUnicode: a sentence given as a Mnemonic value is checked word by word against the list AS
// GIVEN: a word that is not a list entry — here the composed spelling of a list word whose entry is in
// NFKD form, or a list word with a combining mark appended — makes MnemonicToEntropy return
// ErrInvalidMnemonic (never a panic, never acceptance); the list word itself is accepted like any other.
//
//verif:run quick pos=0,11 k=0..2
//verif:big bv 640
//verif:timeout 300
func VerifC03DecodeUnicode(pos, k int) {
	wordList = verifListU{}
	defer func() { wordList = verifList{} }()
	const nw = 12
	m := make(Mnemonic, nw)
	for j := range m {
		m[j] = verifString("word", 2)
		verifAssume(m[j][0] < 0x80 && m[j][1] < 0x80)
		verifAssume(verifWordValue(m[j]) < 2048 && verifWordValue(m[j]) != 5)
	}
	m[pos] = []string{"\u00e9x", "AB\u0301", verifUWord}[k]
	var err error
	panicked := verifPanics(func() { _, err = MnemonicToEntropy(m) })
	verifAssert("unicode.nopanic", !panicked)
	if panicked {
		return
	}
	if k < 2 {
		verifAssert("unicode.not.listed.rejected", errors.Is(err, ErrInvalidMnemonic))
	} else {
		verifAssert("unicode.listed.word.known", !errors.Is(err, ErrInvalidMnemonic))
	}
}

// verifRepairChecksum (replays only): SHA-256 is uninterpreted in the symbolic run, so a
// counterexample that needs a valid checksum is rebuilt with the real one.
func verifRepairChecksum(m Mnemonic) {
	nw := len(m)
	ent := nw * 11 * 32 / 33 / 8
	idx := make([]int, nw)
	for j := range m {
		idx[j] = verifWordValue(m[j])
		if idx[j] >= 2048 {
			return
		}
	}
	bit := func(k int) byte { return byte(idx[k/11]>>uint(10-k%11)) & 1 }
	ref := make([]byte, ent)
	for k := 0; k < 8*ent; k++ {
		ref[k/8] |= bit(k) << uint(7-k%8)
	}
	hash := sha256.Sum256(ref)
	for k := 0; k < ent/4; k++ {
		pos := 8*ent + k
		b := int(hash[k/8]>>uint(7-k%8)) & 1
		idx[pos/11] = idx[pos/11]&^(1<<uint(10-pos%11)) | b<<uint(10-pos%11)
	}
	for j := range m {
		m[j] = verifList{}.Word(idx[j])
	}
}
