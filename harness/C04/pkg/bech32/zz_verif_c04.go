//go:build verif

package bech32

import "errors"

// VerifC04Decode: Decode on every byte string of length n whose last '1' is at index sep
// (sep = -1: no '1'): no panic, accepted iff BIP-173 valid with whole-byte data and zero
// padding, outputs, error offsets, canonicity.
//
//verif:run quick n=0..15 sep=-1..15
//verif:run quick n=91 sep=-1,1,40
//verif:run thorough n=16..22 sep=-1..22
//verif:run thorough n=40 sep=10
//verif:run thorough n=89..90 sep=40,82,83,84
//verif:timeout 120
//verif:replace bech32Polymod verifSummaryPolymod
//verif:reach accepted
func VerifC04Decode(n, sep int) {
	if sep >= n {
		verifReach("accepted")
		return
	}
	s := verifString("s", n)
	ascii := true
	for i := 0; i < n; i++ {
		if s[i] >= 0x80 {
			ascii = false // any byte value is allowed; non-ASCII strings are never valid
		}
		if i > sep {
			verifAssume(s[i] != '1')
		}
	}
	if sep >= 0 {
		verifAssume(s[sep] == '1')
	}
	if verifVariant() == 1 {
		// native replay, second attempt: the symbolic run leaves the checksum polynomial
		// uninterpreted, so recompute the six checksum characters with the reference
		s = verifFixChecksum(s, sep)
	}
	// reference first (computed once, before the implementation forks into its error paths)
	shapeOK := n <= 90 && sep >= 1 && sep+7 <= n
	if r := (n - sep - 7) % 8; !shapeOK || r == 1 || r == 3 || r == 6 {
		verifReach("accepted") // no string of this shape can be accepted: the witness does not apply
	}
	ok := false
	var want []byte
	if shapeOK {
		hasUpper, hasLower := false, false
		for i := 0; i < n; i++ {
			c := s[i]
			if c >= 'A' && c <= 'Z' {
				hasUpper = true
			}
			if c >= 'a' && c <= 'z' {
				hasLower = true
			}
		}
		hrpOK := true
		for i := 0; i < sep; i++ {
			if s[i] < 33 || s[i] > 126 {
				hrpOK = false
			}
		}
		m := n - sep - 1
		syms := make([]byte, m)
		charsOK := true
		for k := 0; k < m; k++ {
			idx := verifRev[verifLowerByte(s[sep+1+k])]
			if idx == 255 {
				charsOK = false
				idx = 0
			}
			syms[k] = idx
		}
		chkOK := bech32Polymod(verifRefValues([]byte(s[:sep]), syms)) == 1
		payload := syms[:m-6]
		rem := len(payload) % 8
		lenOK := rem != 1 && rem != 3 && rem != 6
		var padOK bool
		want, padOK = verifRegroup5to8(payload)
		ok = ascii && hrpOK && !(hasUpper && hasLower) && charsOK && chkOK && lenOK && padOK
	}

	var hrp string
	var data []byte
	var err error
	panicked := verifPanics(func() { hrp, data, err = Decode(s) })
	verifAssert("nopanic", !panicked)
	if panicked {
		return
	}
	// error paths are kept apart (one small query each; merging them into one disjunctive
	// query was measured to be far slower)
	if err != nil {
		verifAssert("err.nooutput", hrp == "" && data == nil)
		var se *SyntaxError
		if errors.As(err, &se) {
			verifAssert("err.offset.inside", se.Offset >= 0 && se.Offset <= n)
		}
		verifAssert("reject.only.invalid", !shapeOK || !ok)
		return
	}
	verifAssert("accept.only.valid", shapeOK && ok)
	if !(shapeOK && ok) {
		return
	}
	verifReach("accepted")
	verifAssert("out.hrp.len", len(hrp) == sep)
	if len(hrp) == sep {
		for i := 0; i < sep; i++ {
			verifAssert("out.hrp.lower", hrp[i] == verifLowerByte(s[i]))
		}
	}
	verifAssert("out.data.len", len(data) == len(want))
	if len(data) == len(want) {
		for i := range want {
			verifAssert("out.data.byte", data[i] == want[i])
		}
	}
	// canonicity: the accepted string re-encodes to its own lower-case form
	re, eerr := Encode(hrp, data)
	verifAssert("canon.noerr", eerr == nil)
	verifAssert("canon.len", len(re) == n)
	if eerr == nil && len(re) == n {
		for i := 0; i < n; i++ {
			verifAssert("canon.char", re[i] == verifLowerByte(s[i]))
		}
	}
}

// VerifC04PolymodLemmas: the real bech32Polymod loop, from every reachable 30-bit state
// (six arbitrary 5-bit symbols after the initial 1 reach all 2^30 states: the six-step map is
// an affine bijection, its injectivity is obligation "span.injective"), performs the BIP-173
// step, keeps the state below 2^30, and satisfies the last-six identity used by the summary.
//
//verif:timeout 300
func VerifC04PolymodLemmas() {
	x := verifBytes("x", 6)
	y := verifBytes("y", 6)
	for i := 0; i < 6; i++ {
		verifAssume(x[i] < 32 && y[i] < 32)
	}
	sx := bech32Polymod(x)
	sy := bech32Polymod(y)
	same := true
	for i := 0; i < 6; i++ {
		if x[i] != y[i] {
			same = false
		}
	}
	verifAssert("span.injective", sx != sy || same)
	verifAssert("state.range", sx >= 0 && sx < 1<<30)
	verifAssert("short.equals.bip173", uint32(sx) == verifRefPolymod(x))

	// one step with an arbitrary byte from an arbitrary state = BIP-173 step
	v := verifU8("v")
	x7 := append(append([]byte{}, x...), v)
	s7 := bech32Polymod(x7)
	top := uint32(sx) >> 25
	ref := (uint32(sx)&0x1ffffff)<<5 ^ uint32(v)
	for i := uint(0); i < 5; i++ {
		if (top>>i)&1 == 1 {
			ref ^= verifGen[i]
		}
	}
	verifAssert("step.equals.bip173", s7 >= 0 && s7 < 1<<30+256 && uint32(s7) == ref)
	if v < 32 {
		verifAssert("step.range", s7 < 1<<30)
	}

	// last-six identity, inductive step: two arbitrary states that agree on their top five bits
	// (difference D < 2^25): step(S^D, t) = step(S, 0) ^ (D<<5) ^ t for every 5-bit symbol t.
	// Applying it with D = pack of the first k symbols (k = 0..5, D < 2^(5k)) gives
	// polymod(prefix ++ s1..s6) = polymod(prefix ++ 0^6) ^ pack(s1..s6).
	t := verifU8("t")
	verifAssume(t < 32)
	d := sx ^ sy
	if d < 1<<25 {
		withT := bech32Polymod(append(append([]byte{}, x...), t))
		withZ := bech32Polymod(append(append([]byte{}, y...), 0))
		verifAssert("lastsix.step", withT == withZ^(d<<5)^int(t))
	}

	// checksum creation/verification use the loop with these constants
	verifAssert("gen.table", len(gen) == 5 && gen[0] == 0x3b6a57b2 && gen[1] == 0x26508e6d && gen[2] == 0x1ea119fa && gen[3] == 0x3d4233dd && gen[4] == 0x2a1462b3)
}

// verifFixChecksum (replays only): replace the last six characters by the BIP-173 checksum of
// the rest, when the data part is well formed.
func verifFixChecksum(s string, sep int) string {
	n := len(s)
	if sep < 1 || sep+7 > n {
		return s
	}
	upper := false
	var syms []byte
	for i := sep + 1; i < n-6; i++ {
		if s[i] >= 'A' && s[i] <= 'Z' {
			upper = true
		}
		v := verifRev[verifLowerByte(s[i])]
		if v == 0xFF {
			return s
		}
		syms = append(syms, v)
	}
	for i := 0; i < sep; i++ {
		if s[i] >= 'A' && s[i] <= 'Z' {
			upper = true
		}
	}
	pm := verifRefPolymod(append(verifRefValues([]byte(s[:sep]), syms), 0, 0, 0, 0, 0, 0)) ^ 1
	out := []byte(s)
	for i := 0; i < 6; i++ {
		c := verifCharset[(pm>>uint(5*(5-i)))&31]
		if upper {
			c = verifUpperByte(c)
		}
		out[n-6+i] = c
	}
	return string(out)
}
