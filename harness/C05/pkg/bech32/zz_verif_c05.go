//go:build verif

package bech32

// VerifC05Encode: Encode on every ASCII prefix of length hl and every byte string of length dl.
//
//verif:run quick hl=0..3 dl=0..6 rt=0
//verif:run quick hl=83..85 dl=0..1 rt=0
//verif:run quick hl=1 dl=50..52 rt=0
//verif:run quick hl=2 dl=50..52 rt=0
//verif:run quick hl=79..82 dl=1..2 rt=0
//verif:run quick hl=75..76 dl=3..4 rt=0
//verif:run quick hl=1..2 dl=0..1 rt=1
//verif:run thorough hl=4..8 dl=0..12 rt=0
//verif:run thorough hl=10 dl=45..46 rt=0
//verif:run thorough hl=42 dl=25..26 rt=0
//verif:run thorough hl=1..3 dl=2..4 rt=1
//verif:timeout 120
//verif:replace bech32Polymod verifSummaryPolymod
//verif:reach encoded
func VerifC05Encode(hl, dl, rt int) {
	hrp := verifString("hrp", hl)
	src := verifBytes("src", dl)
	for i := 0; i < hl; i++ {
		verifAssume(hrp[i] < 0x80)
	}
	// reference first
	nsym := (dl*8 + 4) / 5
	fits := hl+1+nsym+6 <= 90
	printable := true
	hasUpper, hasLower := false, false
	for i := 0; i < hl; i++ {
		c := hrp[i]
		if c < 33 || c > 126 {
			printable = false
		}
		if c >= 'A' && c <= 'Z' {
			hasUpper = true
		}
		if c >= 'a' && c <= 'z' {
			hasLower = true
		}
	}
	ok := hl >= 1 && fits && printable && !(hasUpper && hasLower)
	syms := verifRegroup8to5(src)
	values := verifRefValues([]byte(hrp), syms)
	pm := bech32Polymod(append(values, 0, 0, 0, 0, 0, 0)) ^ 1
	var chk [6]byte
	for i := 0; i < 6; i++ {
		chk[i] = byte(pm>>uint(5*(5-i))) & 31
	}
	if !(hl >= 1 && fits) {
		verifReach("encoded") // no input of this shape can be encoded
	}

	out, err := Encode(hrp, src)
	if err != nil {
		verifAssert("err.nostring", out == "")
		verifAssert("err.only.invalid", !ok)
		return
	}
	verifAssert("ok.only.valid", ok)
	if !ok {
		return
	}
	verifReach("encoded")
	n := hl + 1 + nsym + 6
	verifAssert("out.len", len(out) == n)
	if len(out) != n {
		return
	}
	for i := 0; i < n; i++ {
		var c byte
		switch {
		case i < hl:
			c = verifLowerByte(hrp[i])
		case i == hl:
			c = '1'
		case i < hl+1+nsym:
			c = verifCharset[syms[i-hl-1]]
		default:
			c = verifCharset[chk[i-hl-1-nsym]]
		}
		if hasUpper {
			c = verifUpperByte(c)
		}
		verifAssert("out.char", out[i] == c)
	}
	// the bytes regroup back (with C04 this gives Decode(Encode(hrp, src)) = (lower hrp, src))
	back, padOK := verifRegroup5to8(syms)
	verifAssert("regroup.inverse", padOK && len(back) == dl)
	if len(back) == dl {
		for i := 0; i < dl; i++ {
			verifAssert("regroup.inverse.byte", back[i] == src[i])
		}
	}
	if rt == 0 {
		return
	}
	// Decode inverts Encode (direct, small shapes)
	h2, d2, derr := Decode(out)
	verifAssert("dec.noerr", derr == nil)
	if derr != nil {
		return
	}
	verifAssert("dec.hrp.len", len(h2) == hl)
	if len(h2) == hl {
		for i := 0; i < hl; i++ {
			verifAssert("dec.hrp", h2[i] == verifLowerByte(hrp[i]))
		}
	}
	verifAssert("dec.data.len", len(d2) == dl)
	if len(d2) == dl {
		for i := 0; i < dl; i++ {
			verifAssert("dec.data", d2[i] == src[i])
		}
	}
}
