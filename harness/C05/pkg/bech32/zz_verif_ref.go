//go:build verif

package bech32

// Independent BIP-173 reference used by the C04/C05 harnesses.

const verifCharset = "qpzry9x8gf2tvdw0s3jn54khce6mua7l"

var verifGen = [5]uint32{0x3b6a57b2, 0x26508e6d, 0x1ea119fa, 0x3d4233dd, 0x2a1462b3}

func verifRefPolymod(values []byte) uint32 {
	chk := uint32(1)
	for _, v := range values {
		top := chk >> 25
		chk = (chk&0x1ffffff)<<5 ^ uint32(v)
		for i := uint(0); i < 5; i++ {
			if (top>>i)&1 == 1 {
				chk ^= verifGen[i]
			}
		}
	}
	return chk
}

func verifLowerByte(c byte) byte {
	if c >= 'A' && c <= 'Z' {
		return c + 32
	}
	return c
}

func verifUpperByte(c byte) byte {
	if c >= 'a' && c <= 'z' {
		return c + 0xE0
	}
	return c
}

// verifRev maps a character to its 5-bit value in the BIP-173 charset, 0xFF otherwise.
var verifRev = func() (t [256]byte) {
	for i := range t {
		t[i] = 0xFF
	}
	for i := 0; i < len(verifCharset); i++ {
		t[verifCharset[i]] = byte(i)
	}
	return
}()

// expanded lower-case HRP followed by the given symbols
func verifRefValues(hrp []byte, syms []byte) []byte {
	out := make([]byte, 0, 2*len(hrp)+1+len(syms))
	for _, c := range hrp {
		out = append(out, verifLowerByte(c)>>5)
	}
	out = append(out, 0)
	for _, c := range hrp {
		out = append(out, verifLowerByte(c)&31)
	}
	return append(out, syms...)
}

// verifRegroup5to8: m 5-bit symbols -> bytes; reports whether the padding bits are zero.
func verifRegroup5to8(syms []byte) ([]byte, bool) {
	nbytes := len(syms) * 5 / 8
	out := make([]byte, nbytes)
	acc := uint32(0)
	bits := uint(0)
	k := 0
	for _, v := range syms {
		acc = (acc<<5 | uint32(v)) & 0xfff
		bits += 5
		if bits >= 8 {
			bits -= 8
			out[k] = byte(acc >> bits)
			k++
		}
	}
	padOK := acc&((1<<bits)-1) == 0
	return out, padOK
}

// verifRegroup8to5: bytes -> zero-padded 5-bit symbols.
func verifRegroup8to5(src []byte) []byte {
	n := (len(src)*8 + 4) / 5
	out := make([]byte, 0, n)
	acc := uint32(0)
	bits := uint(0)
	for _, b := range src {
		acc = (acc<<8 | uint32(b)) & 0x1fff
		bits += 8
		for bits >= 5 {
			bits -= 5
			out = append(out, byte(acc>>bits)&31)
		}
	}
	if bits > 0 {
		out = append(out, byte(acc<<(5-bits))&31)
	}
	return out
}

// verifSummaryPolymod replaces bech32Polymod in the whole-string harnesses (directive
// //verif:replace). For inputs of at least 6 values whose last six are 5-bit symbols
//   polymod(prefix ++ s1..s6) = F(prefix) ^ (s1<<25 | s2<<20 | s3<<15 | s4<<10 | s5<<5 | s6)
// where F(prefix) = polymod(prefix ++ 0^6) is left uninterpreted. The identity is checked
// on the real bech32Polymod for every 30-bit loop state by VerifC04PolymodLemmas; that the
// real loop is the BIP-173 polymod is checked there too.
func verifSummaryPolymod(values []byte) int {
	n := len(values)
	if n < 6 {
		return int(verifUF("pmShort", 30, values))
	}
	small := true
	pack := 0
	for i := n - 6; i < n; i++ {
		if values[i] >= 32 {
			small = false
		}
		pack = pack<<5 | int(values[i]&31)
	}
	if !small {
		return int(verifUF("pmFull", 30, values))
	}
	return int(verifUF("pmF", 30, values[:n-6])) ^ pack
}
