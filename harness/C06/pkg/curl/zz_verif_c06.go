//go:build verif

package curl

import (
	"github.com/iotaledger/iota.go/consts"
	"github.com/iotaledger/iota.go/trinary"
)

// The 81-round permutation is opaque here (an unknown deterministic function T of the whole
// state; that it acts lane by lane and equals Curl-P-81 is C20's subject).
var (
	verifTCalls int
	verifLastL  [StateSize]uint
	verifLastH  [StateSize]uint
)

func verifStubTransform(lto, hto, lfrom, hfrom *[StateSize]uint) {
	verifTCalls++
	verifLastL, verifLastH = *lfrom, *hfrom
	if !verifSymbolic() {
		transform(lto, hto, lfrom, hfrom) // native replay: the real permutation
		return
	}
	in := make([]uint, 0, 2*StateSize)
	in = append(in, lfrom[:]...)
	in = append(in, hfrom[:]...)
	out := make([]uint, 2*StateSize)
	verifOpaqueFn("T", out, in)
	copy(lto[:], out[:StateSize])
	copy(hto[:], out[StateSize:])
}

func verifTrits(name string, n int) trinary.Trits {
	raw := verifBytes(name, n)
	t := make(trinary.Trits, n)
	for i := range t {
		t[i] = int8(raw[i])
		verifAssume(t[i] == -1 || t[i] == 0 || t[i] == 1)
	}
	return t
}

// VerifC06In: absorbing one block for a batch of b lanes into an arbitrary previous state: before
// the permutation, lane j < b of word i holds the code of trit i of input j ((1,1)=0, (0,1)=+1,
// (1,0)=-1), lanes >= b hold (1,1), and the capacity words are untouched.
//
//verif:run quick b=1,2
//verif:run thorough b=3,33,63,64
//verif:replace transform verifStubTransform
func VerifC06In(b int) {
	c := NewCurlP81()
	var l0, h0 [StateSize]uint
	for i := 0; i < StateSize; i++ {
		c.l[i], c.h[i] = uint(verifU64("l")), uint(verifU64("h"))
		l0[i], h0[i] = c.l[i], c.h[i]
	}
	src := make([]trinary.Trits, b)
	for j := range src {
		src[j] = verifTrits("in", consts.HashTrinarySize)
	}
	verifTCalls = 0
	err := c.Absorb(src, consts.HashTrinarySize)
	verifAssert("noerr", err == nil)
	verifAssert("one.permutation", verifTCalls == 1)
	for i := 0; i < consts.HashTrinarySize; i++ {
		for j := 0; j < 64; j++ {
			lb, hb := (verifLastL[i]>>uint(j))&1, (verifLastH[i]>>uint(j))&1
			if j < b {
				s := src[j][i]
				verifAssert("rate.l", (lb == 1) == (s <= 0))
				verifAssert("rate.h", (hb == 1) == (s >= 0))
			} else {
				verifAssert("rate.idle", lb == 1 && hb == 1)
			}
		}
	}
	same := true
	for i := consts.HashTrinarySize; i < StateSize; i++ {
		if verifLastL[i] != l0[i] || verifLastH[i] != h0[i] {
			same = false
		}
	}
	verifAssert("capacity.untouched", same)
}

// VerifC06Out: squeezing one block from an arbitrary valid state reads lane j of the rate words.
//
//verif:run quick b=1,2
//verif:run thorough b=64
//verif:replace transform verifStubTransform
func VerifC06Out(b int) {
	c := NewCurlP81()
	for i := 0; i < StateSize; i++ {
		c.l[i], c.h[i] = uint(verifU64("l")), uint(verifU64("h"))
		verifAssume(c.l[i]|c.h[i] == ^uint(0)) // no lane holds the invalid code (0,0)
	}
	l0, h0 := c.l, c.h
	dst := make([]trinary.Trits, b)
	verifTCalls = 0
	err := c.Squeeze(dst, consts.HashTrinarySize)
	verifAssert("noerr", err == nil && verifTCalls == 0)
	for j := 0; j < b; j++ {
		verifAssert("len", len(dst[j]) == consts.HashTrinarySize)
		for i := 0; i < consts.HashTrinarySize && i < len(dst[j]); i++ {
			lb, hb := (l0[i]>>uint(j))&1, (h0[i]>>uint(j))&1
			var want int8
			if lb == 0 && hb == 1 {
				want = 1
			}
			if lb == 1 && hb == 0 {
				want = -1
			}
			verifAssert("out.trit", dst[j][i] == want)
		}
	}
}

// ---- sponge skeleton against the textbook construction over the same opaque T

type verifRef struct {
	c         Curl
	squeezing bool
}

func (r *verifRef) reset() {
	for i := 0; i < StateSize; i++ {
		r.c.l[i], r.c.h[i] = ^uint(0), ^uint(0)
	}
	r.squeezing = false
}

func (r *verifRef) t() {
	var l, h [StateSize]uint
	verifStubTransform(&l, &h, &r.c.l, &r.c.h)
	r.c.l, r.c.h = l, h
}

// absorb one block: overwrite the rate with the coded trits (via the verified in), then T
func (r *verifRef) absorbBlock(block []trinary.Trits) {
	for j := 0; j < consts.HashTrinarySize; j++ {
		r.c.l[j], r.c.h[j] = ^uint(0), ^uint(0)
	}
	for j := range block {
		r.c.in(block[j], uint(j))
	}
	r.t()
}

// squeeze one block: T between blocks, never after the last
func (r *verifRef) squeezeBlock(b int) []trinary.Trits {
	if r.squeezing {
		r.t()
	}
	r.squeezing = true
	out := make([]trinary.Trits, b)
	for j := range out {
		out[j] = make(trinary.Trits, consts.HashTrinarySize)
		r.c.out(out[j], uint(j))
	}
	return out
}

func verifStateEq(a, b *Curl) bool {
	eq := a.direction == b.direction
	for i := 0; i < StateSize; i++ {
		if a.l[i] != b.l[i] || a.h[i] != b.h[i] {
			eq = false
		}
	}
	return eq
}

func verifTritsEq(a, b trinary.Trits) bool {
	if len(a) != len(b) {
		return false
	}
	eq := true
	for i := range a {
		if a[i] != b[i] {
			eq = false
		}
	}
	return eq
}

// histories: each digit is an operation: 1/2 = Absorb of 1/2 blocks in one call, 3 = Absorb of 2
// blocks split over two calls, 4/5 = Squeeze of 1/2 blocks, 6 = Clone and continue on both
// (the clone must evolve identically and independently), 7 = Reset, 8 = rejected calls, 9 = calls of
// zero length (Squeeze of 0 trits, Absorb of 0 trits: accepted, nothing happens, nothing changes).
var verifHistories = [][]int{
	{1, 4}, {2, 4}, {3, 4}, {1, 5}, {1, 4, 4}, {1, 1, 5}, {2, 5, 4}, {1, 6, 4}, {1, 6, 1, 4}, {1, 4, 6, 4},
	{1, 7, 1, 4}, {1, 4, 7, 2, 4}, {8, 1, 8, 4, 8}, {1, 8, 5}, {3, 6, 5},
	{1, 1, 1, 4}, {2, 2, 5}, {1, 5, 5}, {1, 6, 7, 1, 4}, {1, 4, 4, 4, 4},
	{1, 9, 4}, {9, 1, 9, 1, 5}, {1, 4, 9, 4},
}

// VerifC06Sponge: history number hist with a batch of b lanes.
//
//verif:run quick hist=0..14 b=1..2
//verif:run quick hist=20..22 b=1
//verif:run thorough hist=15..19 b=1..2
//verif:run thorough hist=20..22 b=2
//verif:run thorough hist=0,4,8 b=64
//verif:replace transform verifStubTransform
func VerifC06Sponge(hist, b int) {
	c := NewCurlP81()
	ref := &verifRef{}
	ref.reset()
	var clone *Curl
	var cloneRef *verifRef
	newBlock := func() []trinary.Trits {
		blk := make([]trinary.Trits, b)
		for j := range blk {
			blk[j] = verifTrits("in", consts.HashTrinarySize)
		}
		return blk
	}
	absorb := func(cc *Curl, rr *verifRef, blocks [][]trinary.Trits, split bool) {
		if split {
			for _, blk := range blocks {
				verifAssert("absorb.noerr", cc.Absorb(blk, consts.HashTrinarySize) == nil)
			}
		} else {
			joined := make([]trinary.Trits, b)
			for j := range joined {
				for _, blk := range blocks {
					joined[j] = append(joined[j], blk[j]...)
				}
			}
			verifAssert("absorb.noerr", cc.Absorb(joined, len(blocks)*consts.HashTrinarySize) == nil)
		}
		for _, blk := range blocks {
			rr.absorbBlock(blk)
		}
	}
	squeeze := func(cc *Curl, rr *verifRef, n int) {
		dst := make([]trinary.Trits, b)
		verifAssert("squeeze.noerr", cc.Squeeze(dst, n*consts.HashTrinarySize) == nil)
		for k := 0; k < n; k++ {
			want := rr.squeezeBlock(b)
			for j := 0; j < b; j++ {
				verifAssert("squeeze.len", len(dst[j]) == n*consts.HashTrinarySize)
				if len(dst[j]) == n*consts.HashTrinarySize {
					verifAssert("squeeze.out", verifTritsEq(dst[j][k*consts.HashTrinarySize:(k+1)*consts.HashTrinarySize], want[j]))
				}
			}
		}
	}
	for _, op := range verifHistories[hist] {
		switch op {
		case 1:
			blk := newBlock()
			absorb(c, ref, [][]trinary.Trits{blk}, false)
			if clone != nil {
				absorb(clone, cloneRef, [][]trinary.Trits{newBlock()}, false)
			}
		case 2, 3:
			absorb(c, ref, [][]trinary.Trits{newBlock(), newBlock()}, op == 3)
		case 4, 5:
			squeeze(c, ref, op-3)
			if clone != nil {
				squeeze(clone, cloneRef, op-3)
			}
		case 9:
			before := *c
			squeeze(c, ref, 0)
			if c.direction == SpongeAbsorbing {
				verifAssert("zero.absorb.noerr", c.Absorb(make([]trinary.Trits, b), 0) == nil)
			}
			verifAssert("zero.state.untouched", verifStateEq(c, &before))
		case 6:
			clone = c.Clone()
			cr := *ref
			cloneRef = &cr
			verifAssert("clone.equal", verifStateEq(clone, c))
		case 7:
			c.Reset()
			ref.reset()
			fresh := NewCurlP81()
			verifAssert("reset.initial", verifStateEq(c, fresh))
		case 8:
			before := *c
			blk := newBlock()
			e1 := c.Absorb(nil, consts.HashTrinarySize)
			e2 := c.Absorb(make([]trinary.Trits, 65), consts.HashTrinarySize)
			e3 := c.Absorb(blk, consts.HashTrinarySize+1)
			e4 := c.Squeeze(nil, consts.HashTrinarySize)
			e5 := c.Squeeze(make([]trinary.Trits, b), 100)
			verifAssert("rejected.errors", e1 != nil && e2 != nil && e3 != nil && e4 != nil && e5 != nil)
			verifAssert("rejected.state.untouched", verifStateEq(c, &before))
		}
		// the implementation's state always equals the textbook state
		want := ref.c
		want.direction = c.direction
		verifAssert("state", verifStateEq(c, &want))
		verifAssert("direction", (c.direction == SpongeSqueezing) == ref.squeezing)
	}
}
