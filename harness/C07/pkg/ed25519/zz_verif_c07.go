//go:build verif

package ed25519

import (
	"crypto"
	stded "crypto/ed25519"
)

func verifEq(a, b []byte) bool {
	if len(a) != len(b) {
		return false
	}
	eq := true
	for i := range a {
		if a[i] != b[i] {
			eq = false
		}
	}
	return eq
}

type verifReader struct{ data []byte }

func (r *verifReader) Read(p []byte) (int, error) {
	n := copy(p, r.data)
	r.data = r.data[n:]
	return n, nil
}

// VerifC07: keys and signatures are byte-identical to crypto/ed25519 (both executed over the same
// algebraic model and uninterpreted SHA-512), signing is deterministic, Verify accepts the
// signature, and the crypto.Signer interface behaves as documented.
//
//verif:run quick ml=0,3
//verif:run thorough ml=1,64
//verif:big int
func VerifC07(ml int) {
	seed := verifBytes("seed", 32)
	msg := verifBytes("msg", ml)
	priv := NewKeyFromSeed(seed)
	ref := stded.NewKeyFromSeed(seed)
	verifAssert("key.equals.stdlib", verifEq(priv, ref))
	verifAssert("key.layout", len(priv) == 64 && verifEq(priv[:32], seed))
	pub := priv.Public().(PublicKey)
	verifAssert("public.equals.stdlib", verifEq(pub, ref.Public().(stded.PublicKey)) && verifEq(pub, priv[32:]))
	verifAssert("seed.roundtrip", verifEq(priv.Seed(), seed))

	sig := Sign(priv, msg)
	verifAssert("sig.equals.stdlib", verifEq(sig, stded.Sign(ref, msg)))
	verifAssert("sig.deterministic", verifEq(sig, Sign(priv, msg)))
	verifAssert("sig.verifies", Verify(pub, msg, sig))
	verifAssert("sig.verifies.stdlib", stded.Verify(stded.PublicKey(pub), msg, sig))

	s2, err := priv.Sign(nil, msg, crypto.Hash(0))
	verifAssert("signer.same", err == nil && verifEq(s2, sig))
	s3, err3 := priv.Sign(nil, msg, crypto.SHA512)
	verifAssert("signer.refuses.prehash", err3 != nil && s3 == nil)

	p2, k2, gerr := GenerateKey(&verifReader{data: append([]byte{}, seed...)})
	verifAssert("generate", gerr == nil && verifEq(k2, priv) && verifEq(p2, pub))
}
