//go:build verif

package ed25519

import (
	"crypto"
	stded "crypto/ed25519"
	"io"
)

func verifEq(a, b []byte) bool {
	if len(a) != len(b) {
		return false
	}
	eq := true
	for i := range a {
		if a[i] != b[i] {
			eq = false
		}
	}
	return eq
}

// verifReader hands out its data in pieces of at most chunk bytes (chunk <= 0: everything that fits),
// then io.EOF: the io.Reader contract allows any such short read.
type verifReader struct {
	data  []byte
	chunk int
}

func (r *verifReader) Read(p []byte) (int, error) {
	if len(r.data) == 0 {
		return 0, io.EOF
	}
	if r.chunk > 0 && len(p) > r.chunk {
		p = p[:r.chunk]
	}
	n := copy(p, r.data)
	r.data = r.data[n:]
	return n, nil
}

// VerifC07: keys and signatures are byte-identical to crypto/ed25519 (both executed over the same
// algebraic model and uninterpreted SHA-512), signing is deterministic, Verify accepts the
// signature, and the crypto.Signer interface behaves as documented.
//
//verif:run quick ml=0 chunk=0 short=0
//verif:run quick ml=3 chunk=1 short=31
//verif:run quick ml=3 chunk=16 short=16
//verif:run thorough ml=1,64 chunk=0,5,31,32,33 short=1,17
//verif:big int
func VerifC07(ml, chunk, short int) {
	seed := verifBytes("seed", 32)
	msg := verifBytes("msg", ml)
	priv := NewKeyFromSeed(seed)
	ref := stded.NewKeyFromSeed(seed)
	verifAssert("key.equals.stdlib", verifEq(priv, ref))
	verifAssert("key.layout", len(priv) == 64 && verifEq(priv[:32], seed))
	pub := priv.Public().(PublicKey)
	verifAssert("public.equals.stdlib", verifEq(pub, ref.Public().(stded.PublicKey)) && verifEq(pub, priv[32:]))
	verifAssert("seed.roundtrip", verifEq(priv.Seed(), seed))

	sig := Sign(priv, msg)
	verifAssert("sig.equals.stdlib", verifEq(sig, stded.Sign(ref, msg)))
	verifAssert("sig.deterministic", verifEq(sig, Sign(priv, msg)))
	verifAssert("sig.verifies", Verify(pub, msg, sig))
	verifAssert("sig.verifies.stdlib", stded.Verify(stded.PublicKey(pub), msg, sig))

	s2, err := priv.Sign(nil, msg, crypto.Hash(0))
	verifAssert("signer.same", err == nil && verifEq(s2, sig))
	s3, err3 := priv.Sign(nil, msg, crypto.SHA512)
	verifAssert("signer.refuses.prehash", err3 != nil && s3 == nil)
	// every other hash identifier (symbolic) is refused as well, exactly Hash(0) signs
	hv := verifU8("hash")
	s4, err4 := priv.Sign(nil, msg, crypto.Hash(hv))
	verifAssert("signer.signs.iff.unhashed", (err4 == nil) == (hv == 0))
	if err4 != nil {
		verifAssert("signer.refused.nosig", s4 == nil)
	}

	// GenerateKey consumes exactly 32 bytes of entropy however the reader delivers them
	// (pieces of `chunk` bytes), and fails without a key when fewer are available
	p2, k2, gerr := GenerateKey(&verifReader{data: append(append([]byte{}, seed...), 0xAA), chunk: chunk})
	verifAssert("generate", gerr == nil && verifEq(k2, priv) && verifEq(p2, pub))
	p3, k3, gerr3 := GenerateKey(&verifReader{data: append([]byte{}, seed[:short]...), chunk: chunk})
	verifAssert("generate.short.entropy", gerr3 != nil && p3 == nil && k3 == nil)
}
