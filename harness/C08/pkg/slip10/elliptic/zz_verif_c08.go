//go:build verif

package elliptic

import (
	stdelliptic "crypto/elliptic"
	"errors"
	"math/big"

	"github.com/wollac/iota-crypto-demo/pkg/slip10"
)

// verifGroup: the contract of crypto/elliptic.Curve for a curve of prime order N, as the abstract
// cyclic group (Z_N, +): the point [d]G is represented as (d, 1), the point at infinity as (0, 0)
// (the representation crypto/elliptic prescribes); scalars of any value are reduced mod N.
type verifGroup struct{ params *stdelliptic.CurveParams }

func (g verifGroup) Params() *stdelliptic.CurveParams { return g.params }
func (g verifGroup) IsOnCurve(x, y *big.Int) bool    { return y.Sign() != 0 && x.Sign() > 0 && x.Cmp(g.params.N) < 0 }
func (g verifGroup) point(d *big.Int) (*big.Int, *big.Int) {
	if d.Sign() == 0 {
		return new(big.Int), new(big.Int)
	}
	return d, big.NewInt(1)
}
func (g verifGroup) dlog(x, y *big.Int) *big.Int {
	if y.Sign() == 0 {
		return new(big.Int)
	}
	return x
}
func (g verifGroup) Add(x1, y1, x2, y2 *big.Int) (*big.Int, *big.Int) {
	s := new(big.Int).Add(g.dlog(x1, y1), g.dlog(x2, y2))
	return g.point(s.Mod(s, g.params.N))
}
func (g verifGroup) Double(x1, y1 *big.Int) (*big.Int, *big.Int) { return g.Add(x1, y1, x1, y1) }
func (g verifGroup) ScalarBaseMult(k []byte) (*big.Int, *big.Int) {
	d := new(big.Int).SetBytes(k)
	return g.point(d.Mod(d, g.params.N))
}
func (g verifGroup) ScalarMult(x1, y1 *big.Int, k []byte) (*big.Int, *big.Int) {
	panic("not used by the key code")
}

func verifOrder(which int) *big.Int {
	n := new(big.Int)
	if which == 0 { // secp256k1
		n.SetString("FFFFFFFFFFFFFFFFFFFFFFFFFFFFFFFEBAAEDCE6AF48A03BBFD25E8CD0364141", 16)
	} else { // NIST P-256
		n.SetString("FFFFFFFF00000000FFFFFFFFFFFFFFFFBCE6FAADA7179E84F3B9CAC2FC632551", 16)
	}
	return n
}

// VerifC08ShiftCommutes: for every private key k in [1, N) and every 32-byte shift (0, k's own
// scalar, N-k and values >= N included), shifting the private key and shifting its public key
// either both report ErrInvalidKey or both succeed with Public(child private) = child public;
// no panic. The curve is the abstract group with the real order of secp256k1 / P-256.
//
// full = 0 restricts k to scalars with a non-zero top byte (one byte length of k.Bytes()).
//
//verif:run quick curve=0..1 full=0
//verif:run thorough curve=0..1 full=1
//verif:big bv 272
//verif:timeout 300
func VerifC08ShiftCommutes(curve, full int) {
	verifShiftBody(curve, full)
}

func verifShiftBody(curve, full int) {
	n := verifOrder(curve)
	g := verifGroup{&stdelliptic.CurveParams{N: n, Name: "abstract", BitSize: 256}}
	k := verifBig("k", 256)
	if full == 2 {
		verifAssume(k.Cmp(n) >= 0) // unreduced, top byte non-zero
	} else {
		verifAssume(k.Sign() > 0 && k.Cmp(n) < 0)
	}
	if full == 0 {
		verifAssume(k.Cmp(new(big.Int).Lsh(big.NewInt(1), 248)) >= 0)
	}
	priv := &PrivateKey{K: k, Curve: g}
	pub := priv.Public().(*PublicKey)
	shift := verifBytes("shift", 32)
	if full == 0 {
		// quick tier: also keep the child scalar at full byte length (k.Bytes() forks on the length)
		sum := new(big.Int).Add(new(big.Int).SetBytes(shift), k)
		sum.Mod(sum, n)
		verifAssume(sum.Sign() == 0 || sum.Cmp(new(big.Int).Lsh(big.NewInt(1), 248)) >= 0)
	}

	var c1, c2 slip10.Key
	var e1, e2 error
	p1 := verifPanics(func() { c1, e1 = priv.Shift(shift) })
	p2 := verifPanics(func() { c2, e2 = pub.Shift(shift) })
	verifAssert("nopanic", !p1 && !p2)
	if p1 || p2 {
		return
	}
	verifAssert("same.verdict", (e1 == nil) == (e2 == nil))
	if e1 != nil {
		verifAssert("priv.err.kind", errors.Is(e1, slip10.ErrInvalidKey) && c1 == nil)
	}
	if e2 != nil {
		verifAssert("pub.err.kind", errors.Is(e2, slip10.ErrInvalidKey) && c2 == nil)
	}
	if e1 == nil && e2 == nil {
		verifReach("both.ok")
		q1 := c1.Public().(*PublicKey)
		q2 := c2.(*PublicKey)
		verifAssert("same.point", q1.X.Cmp(q2.X) == 0 && q1.Y.Cmp(q2.Y) == 0)
		verifAssert("child.private", c1.IsPrivate() && !c2.IsPrivate())
		ck := c1.(*PrivateKey).K
		verifAssert("child.range", ck.Sign() > 0 && ck.Cmp(n) < 0)
	}
}

// VerifC08NewPrivateKey: NewPrivateKey(b) is valid iff 0 < int(b) < N, and Bytes is the 32-byte
// big-endian form.
//
//verif:run quick curve=0..1
//verif:big bv 272
func VerifC08NewPrivateKey(curve int) {
	n := verifOrder(curve)
	c := Curve{verifGroup{&stdelliptic.CurveParams{N: n, Name: "abstract", BitSize: 256}}}
	b := verifBytes("b", 32)
	v := new(big.Int).SetBytes(b)
	key, err := c.NewPrivateKey(b)
	valid := v.Sign() > 0 && v.Cmp(n) < 0
	verifAssert("newkey.iff", (err == nil) == valid)
	if err != nil {
		verifAssert("newkey.err", errors.Is(err, slip10.ErrInvalidKey) && key == nil)
		return
	}
	out := key.Bytes()
	verifAssert("bytes.len", len(out) == 32)
	if len(out) == 32 {
		for i := range out {
			verifAssert("bytes.be", out[i] == b[i])
		}
	}
}
