//go:build verif

package bip39

import (
	"crypto/sha256"
	"crypto/sha512"

	"golang.org/x/crypto/pbkdf2"
)

// verifList: a concrete word list meeting the wordlist.List contract: word i is the two ASCII
// bytes 0x40+(i>>6), 0x40+(i&63) (so the list contains upper- and lower-case letters and
// punctuation). The contents of the built-in English/Japanese lists are outside.
type verifList struct{}

// verifWordValue: index of a two-byte word, >= 2048 if it is not in the list.
func verifWordValue(w string) int {
	a, b := int(w[0]), int(w[1])
	if a < 0x40 || a > 0x5F || b < 0x40 || b > 0x7F {
		return 4096
	}
	return (a-0x40)<<6 | (b - 0x40)
}

func (verifList) Contains(w string) bool { return len(w) == 2 && verifWordValue(w) < 2048 }
func (verifList) Word(i int) string {
	if i < 0 || i >= 2048 {
		panic("index out of range")
	}
	return string([]byte{byte(0x40 + i>>6), byte(0x40 + i&63)})
}
func (l verifList) Index(w string) int {
	if !l.Contains(w) {
		panic("unknown word")
	}
	return verifWordValue(w)
}


// VerifC09Seed: for every sequence of nw two-byte ASCII words and every ASCII passphrase of pl
// bytes: MnemonicToSeed fails (no seed) exactly when MnemonicToEntropy fails, and otherwise returns
// PBKDF2-HMAC-SHA512(password = words joined by single spaces, salt = "mnemonic" || passphrase,
// 2048 iterations, 64 bytes). PBKDF2 is uninterpreted; NFKD is the identity on ASCII.
//
//verif:run quick nw=12 pl=0..3
//verif:run quick nw=0,11,13 pl=1
//verif:run thorough nw=15,24 pl=0,5
//verif:big bv 640
//verif:timeout 300
func VerifC09Seed(nw, pl int) {
	wordList = verifList{}
	m := make(Mnemonic, nw)
	for j := range m {
		m[j] = verifString("word", 2)
		verifAssume(m[j][0] < 0x80 && m[j][1] < 0x80)
	}
	if verifVariant() == 1 && nw%3 == 0 && nw >= 12 && nw <= 48 {
		verifRepairChecksum(m)
	}
	pass := verifString("pass", pl)
	for i := 0; i < pl; i++ {
		verifAssume(pass[i] < 0x80)
	}
	_, eerr := MnemonicToEntropy(m)
	seed, err := MnemonicToSeed(m, pass)
	verifAssert("err.iff.invalid", (err == nil) == (eerr == nil))
	if err != nil {
		verifAssert("err.noseed", seed == nil)
		return
	}
	if eerr != nil {
		return
	}
	verifReach("derived")
	// the sentence: words joined by single spaces
	var pw []byte
	for j := range m {
		if j > 0 {
			pw = append(pw, ' ')
		}
		pw = append(pw, m[j]...)
	}
	want := pbkdf2.Key(pw, []byte("mnemonic"+pass), 2048, 64, sha512.New)
	verifAssert("seed.len", len(seed) == 64)
	if len(seed) == 64 {
		for i := range want {
			verifAssert("seed.pbkdf2", seed[i] == want[i])
		}
	}
}

func verifIsSpace(c byte) bool {
	return c == ' ' || c == '\t' || c == '\n' || c == '\v' || c == '\f' || c == '\r'
}

// VerifC09Parse: for every ASCII string of length n: ParseMnemonic returns the maximal runs of
// non-white-space bytes, and parsing the printed form of the result gives the same sentence.
//
//verif:run quick n=0..5
//verif:run thorough n=5
func VerifC09Parse(n int) {
	s := verifString("s", n)
	for i := 0; i < n; i++ {
		verifAssume(s[i] < 0x80)
	}
	m := ParseMnemonic(s)
	// reference: number of words and their bounds
	cnt := 0
	for i := 0; i < n; i++ {
		if !verifIsSpace(s[i]) && (i == 0 || verifIsSpace(s[i-1])) {
			cnt++
		}
	}
	verifAssert("parse.count", len(m) == cnt)
	k := 0
	for i := 0; i < n && k < len(m); i++ {
		if !verifIsSpace(s[i]) && (i == 0 || verifIsSpace(s[i-1])) {
			j := i
			for j < n && !verifIsSpace(s[j]) {
				j++
			}
			verifAssert("parse.word", m[k] == s[i:j])
			k++
		}
	}
	printed := m.String()
	m2 := ParseMnemonic(printed)
	verifAssert("reparse.count", len(m2) == len(m))
	if len(m2) == len(m) {
		for i := range m {
			verifAssert("reparse.word", m2[i] == m[i])
		}
	}
	b, _ := m.MarshalText()
	verifAssert("marshal", string(b) == printed)
	var m3 Mnemonic
	verifAssert("unmarshal", m3.UnmarshalText([]byte(s)) == nil && len(m3) == len(m))
}

// verifRepairChecksum (replays only): SHA-256 is uninterpreted in the symbolic run, so a
// counterexample that needs a valid checksum is rebuilt with the real one.
func verifRepairChecksum(m Mnemonic) {
	nw := len(m)
	ent := nw * 11 * 32 / 33 / 8
	idx := make([]int, nw)
	for j := range m {
		idx[j] = verifWordValue(m[j])
		if idx[j] >= 2048 {
			return
		}
	}
	bit := func(k int) byte { return byte(idx[k/11]>>uint(10-k%11)) & 1 }
	ref := make([]byte, ent)
	for k := 0; k < 8*ent; k++ {
		ref[k/8] |= bit(k) << uint(7-k%8)
	}
	hash := sha256.Sum256(ref)
	for k := 0; k < ent/4; k++ {
		pos := 8*ent + k
		b := int(hash[k/8]>>uint(7-k%8)) & 1
		idx[pos/11] = idx[pos/11]&^(1<<uint(10-pos%11)) | b<<uint(10-pos%11)
	}
	for j := range m {
		m[j] = verifList{}.Word(idx[j])
	}
}
