//go:build verif

package bip39

import (
	"crypto/sha256"
	"crypto/sha512"

	"golang.org/x/crypto/pbkdf2"
)

// verifList: a concrete word list meeting the wordlist.List contract: word i is the two ASCII
// bytes 0x40+(i>>6), 0x40+(i&63) (so the list contains upper- and lower-case letters and
// punctuation). The contents of the built-in English/Japanese lists are outside.
type verifList struct{}

// verifWordValue: index of a two-byte word, >= 2048 if it is not in the list.
func verifWordValue(w string) int {
	a, b := int(w[0]), int(w[1])
	if a < 0x40 || a > 0x5F || b < 0x40 || b > 0x7F {
		return 4096
	}
	return (a-0x40)<<6 | (b - 0x40)
}

func (verifList) Contains(w string) bool { return len(w) == 2 && verifWordValue(w) < 2048 }
func (verifList) Word(i int) string {
	if i < 0 || i >= 2048 {
		panic("index out of range")
	}
	return string([]byte{byte(0x40 + i>>6), byte(0x40 + i&63)})
}
func (l verifList) Index(w string) int {
	if !l.Contains(w) {
		panic("unknown word")
	}
	return verifWordValue(w)
}


// VerifC09Seed: for every sequence of nw two-byte ASCII words and every ASCII passphrase of pl
// bytes: MnemonicToSeed fails (no seed) exactly when MnemonicToEntropy fails, and otherwise returns
// PBKDF2-HMAC-SHA512(password = words joined by single spaces, salt = "mnemonic" || passphrase,
// 2048 iterations, 64 bytes). PBKDF2 is uninterpreted; NFKD is the identity on ASCII.
//
//verif:run quick nw=12 pl=0..3
//verif:run quick nw=0,11,13 pl=1
//verif:run thorough nw=27 pl=0
//verif:run thorough nw=15,24 pl=0,5
//verif:run thorough nw=33,48 pl=1
//verif:big bv 640
//verif:timeout 300
func VerifC09Seed(nw, pl int) {
	pass := verifString("pass", pl)
	for i := 0; i < pl; i++ {
		verifAssume(pass[i] < 0x80)
	}
	verifSeedBody(nw, pass, pass)
}

// verifSeedBody: MnemonicToSeed on nw symbolic two-byte words and the given passphrase against
// PBKDF2 with salt "mnemonic" || passNorm.
func verifSeedBody(nw int, pass, passNorm string) { verifSeedBodyFixed(nw, 0, pass, passNorm) }

// verifSeedBodyFixed: the first `fixed` words are constants (word j has index 37*j+5 mod 2048), the
// others arbitrary.
func verifSeedBodyFixed(nw, fixed int, pass, passNorm string) {
	wordList = verifList{}
	m := make(Mnemonic, nw)
	for j := range m {
		if j < fixed {
			m[j] = verifList{}.Word((37*j + 5) % 2048)
			continue
		}
		m[j] = verifString("word", 2)
		verifAssume(m[j][0] < 0x80 && m[j][1] < 0x80)
	}
	if verifVariant() == 1 && nw%3 == 0 && nw >= 12 && nw <= 48 {
		verifRepairChecksum(m)
		if !verifSymbolic() {
			// native replay: SHA-256 is uninterpreted in the symbolic run; the class "sentence with a
			// wrong checksum" is made concrete by flipping each checksum bit of the repaired sentence
			ent := nw * 11 * 32 / 33
			for k := 0; k < ent/32; k++ {
				bad := append(Mnemonic{}, m...)
				pos := ent + k
				v := verifWordValue(bad[pos/11])
				if v >= 2048 {
					break
				}
				bad[pos/11] = verifList{}.Word(v ^ 1<<uint(10-pos%11))
				sd, e := MnemonicToSeed(bad, pass)
				verifAssert("bank.wrong.checksum.rejected", e != nil && sd == nil)
			}
		}
	}
	valid := verifValidRef(m)
	_, eerr := MnemonicToEntropy(m)
	seed, err := MnemonicToSeed(m, pass)
	verifAssert("err.iff.invalid", (err == nil) == (eerr == nil))
	verifAssert("err.iff.invalid.bip39", (err == nil) == valid)
	if err != nil {
		verifAssert("err.noseed", seed == nil)
		return
	}
	if eerr != nil {
		return
	}
	verifReach("derived")
	// the sentence: words joined by single spaces
	var pw []byte
	for j := range m {
		if j > 0 {
			pw = append(pw, ' ')
		}
		pw = append(pw, m[j]...)
	}
	want := pbkdf2.Key(pw, []byte("mnemonic"+passNorm), 2048, 64, sha512.New)
	verifAssert("seed.len", len(seed) == 64)
	if len(seed) == 64 {
		for i := range want {
			verifAssert("seed.pbkdf2", seed[i] == want[i])
		}
	}
}

// VerifC09SeedLong: long sentences (checksums of 9..16 bits) with the last `free` words arbitrary and
// the others fixed, empty passphrase: the same obligations as VerifC09Seed.
//
//verif:run quick nw=27,48 free=2
//verif:run thorough nw=30,33,36,39,42,45 free=3
//verif:big bv 640
//verif:timeout 300
func VerifC09SeedLong(nw, free int) {
	verifSeedBodyFixed(nw, nw-free, "", "")
}

// verifNFKD: passphrase classes with their NFKD forms as literals (computed with an independent
// implementation, Python's unicodedata): canonical and compatibility decompositions from Latin-1,
// the BMP and presentation forms, a string already in NFKD, canonical reordering of combining marks.
var verifNFKD = [][2]string{
	{"\u00e9", "e\u0301"},                 // Latin-1 letter with canonical decomposition
	{"\u00a0", " "},                        // Latin-1 no-break space (compatibility)
	{"\u00b2", "2"},                        // Latin-1 superscript (compatibility)
	{"\ufb01", "fi"},                       // ligature
	{"\u212b", "A\u030a"},                 // angstrom sign (singleton, then canonical)
	{"e\u0301", "e\u0301"},                // already decomposed
	{"\u30ac", "\u30ab\u3099"},           // kana with voiced mark
	{"\uff71", "\u30a2"},                  // half-width kana
	{"a\u0307\u0323", "a\u0323\u0307"},  // reordering of combining marks
	{"p\u00e4ss w\u00f6rd", "pa\u0308ss wo\u0308rd"},
	{"\u1e9b\u0323", "s\u0323\u0307"},   // long s with dot above + dot below
}

// VerifC09SeedUnicode: as VerifC09Seed for passphrases that change under NFKD: class k of verifNFKD,
// preceded and followed by one arbitrary ASCII byte. The implementation's normalisation runs in the
// model (native golang.org/x/text on the constant stretch), the expected salt is the literal.
//
//verif:run quick nw=12 k=0..10
//verif:big bv 640
//verif:timeout 300
func VerifC09SeedUnicode(nw, k int) {
	a := verifString("pre", 1)
	b := verifString("post", 1)
	verifAssume(a[0] < 0x80 && b[0] < 0x80)
	verifSeedBody(nw, a+verifNFKD[k][0]+b, a+verifNFKD[k][1]+b)
}

func verifIsSpace(c byte) bool {
	return c == ' ' || c == '\t' || c == '\n' || c == '\v' || c == '\f' || c == '\r'
}

// VerifC09Parse: for every ASCII string of length n: ParseMnemonic returns the maximal runs of
// non-white-space bytes, and parsing the printed form of the result gives the same sentence.
//
//verif:run quick n=0..5
//verif:run thorough n=5
func VerifC09Parse(n int) {
	s := verifString("s", n)
	for i := 0; i < n; i++ {
		verifAssume(s[i] < 0x80)
	}
	m := ParseMnemonic(s)
	// reference: number of words and their bounds
	cnt := 0
	for i := 0; i < n; i++ {
		if !verifIsSpace(s[i]) && (i == 0 || verifIsSpace(s[i-1])) {
			cnt++
		}
	}
	verifAssert("parse.count", len(m) == cnt)
	k := 0
	for i := 0; i < n && k < len(m); i++ {
		if !verifIsSpace(s[i]) && (i == 0 || verifIsSpace(s[i-1])) {
			j := i
			for j < n && !verifIsSpace(s[j]) {
				j++
			}
			verifAssert("parse.word", m[k] == s[i:j])
			k++
		}
	}
	printed := m.String()
	m2 := ParseMnemonic(printed)
	verifAssert("reparse.count", len(m2) == len(m))
	if len(m2) == len(m) {
		for i := range m {
			verifAssert("reparse.word", m2[i] == m[i])
		}
	}
	b, _ := m.MarshalText()
	verifAssert("marshal", string(b) == printed)
	var m3 Mnemonic
	verifAssert("unmarshal", m3.UnmarshalText([]byte(s)) == nil && len(m3) == len(m))
}

// verifValidRef: BIP-39 validity written from the specification: 12..48 words in steps of 3, all in
// the list, and the last ENT/32 bits equal to the first bits of SHA-256(entropy).
func verifValidRef(m Mnemonic) bool {
	nw := len(m)
	if nw < 12 || nw > 48 || nw%3 != 0 {
		return false
	}
	ok := true
	ent := nw * 11 * 32 / 33 / 8
	idx := make([]int, nw)
	for j := range m {
		idx[j] = verifWordValue(m[j])
		if len(m[j]) != 2 || idx[j] >= 2048 {
			ok = false
			idx[j] = 0
		}
	}
	bit := func(k int) byte { return byte(idx[k/11]>>uint(10-k%11)) & 1 }
	ref := make([]byte, ent)
	for k := 0; k < 8*ent; k++ {
		ref[k/8] |= bit(k) << uint(7-k%8)
	}
	hash := sha256.Sum256(ref)
	for k := 0; k < ent/4; k++ {
		if bit(8*ent+k) != (hash[k/8]>>uint(7-k%8))&1 {
			ok = false
		}
	}
	return ok
}

// verifRepairChecksum (replays only): SHA-256 is uninterpreted in the symbolic run, so a
// counterexample that needs a valid checksum is rebuilt with the real one.
func verifRepairChecksum(m Mnemonic) {
	nw := len(m)
	ent := nw * 11 * 32 / 33 / 8
	idx := make([]int, nw)
	for j := range m {
		idx[j] = verifWordValue(m[j])
		if idx[j] >= 2048 {
			return
		}
	}
	bit := func(k int) byte { return byte(idx[k/11]>>uint(10-k%11)) & 1 }
	ref := make([]byte, ent)
	for k := 0; k < 8*ent; k++ {
		ref[k/8] |= bit(k) << uint(7-k%8)
	}
	hash := sha256.Sum256(ref)
	for k := 0; k < ent/4; k++ {
		pos := 8*ent + k
		b := int(hash[k/8]>>uint(7-k%8)) & 1
		idx[pos/11] = idx[pos/11]&^(1<<uint(10-pos%11)) | b<<uint(10-pos%11)
	}
	for j := range m {
		m[j] = verifList{}.Word(idx[j])
	}
}

// verifSeps: white space and compatibility forms between two words, with the words expected from
// "w1" + sep + "w2" (prefix joined to w1 / w2 where the separator leaves combining marks behind).
var verifSeps = []struct {
	sep        string
	tail, head string // appended to w1 / prepended to w2 in the expected words
	one        bool   // sep joins the words instead of separating them
}{
	{sep: "\u3000"},                     // ideographic space
	{sep: "\u00a0"},                     // no-break space
	{sep: "\u2003"},                     // em space
	{sep: " \u3000\t\u2028"},           // mixture
	{sep: "\u0085"},                     // next line (white space, unchanged by NFKD)
	{sep: "\u00a8", head: "\u0308"},    // diaeresis: NFKD = space + combining diaeresis
	{sep: "\ufb01", tail: "fi", one: true}, // ligature inside a word
	{sep: "\u00e9\u3000", tail: "e\u0301"},
}

// VerifC09ParseUnicode: ParseMnemonic on w1 + sep + w2 (w1, w2 arbitrary non-space ASCII words of two
// bytes, sep = class k of verifSeps) yields the words of the NFKD-normalised sentence, and parsing the
// printed form of the result gives the same sentence.
//
//verif:run quick k=0..7
//verif:init unicode
func VerifC09ParseUnicode(k int) {
	w1, w2 := verifString("w1", 2), verifString("w2", 2)
	for i := 0; i < 2; i++ {
		verifAssume(w1[i] < 0x80 && w2[i] < 0x80 && !verifIsSpace(w1[i]) && !verifIsSpace(w2[i]))
	}
	c := verifSeps[k]
	m := ParseMnemonic(w1 + c.sep + w2)
	var want []string
	if c.one {
		want = []string{w1 + c.tail + c.head + w2}
	} else {
		want = []string{w1 + c.tail, c.head + w2}
	}
	verifAssert("uparse.count", len(m) == len(want))
	if len(m) != len(want) {
		return
	}
	for i := range want {
		verifAssert("uparse.word", m[i] == want[i])
	}
	m2 := ParseMnemonic(m.String())
	verifAssert("ureparse.count", len(m2) == len(m))
	if len(m2) == len(m) {
		for i := range m {
			verifAssert("ureparse.word", m2[i] == m[i])
		}
	}
}
