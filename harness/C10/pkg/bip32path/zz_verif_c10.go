//go:build verif

package bip32path

// Reference reading of one path component (BIP-32 text form): decimal digits with an
// optional single trailing H or apostrophe; the digit value must be below 2^31.
func verifRefComponent(s string) (uint32, bool) {
	n := len(s)
	digits := n
	marked := false
	if n >= 1 && (s[n-1] == 'H' || s[n-1] == '\'') {
		digits = n - 1
		marked = true
	}
	if digits < 1 {
		return 0, false
	}
	var val uint64
	ok := true
	for i := 0; i < digits; i++ {
		c := s[i]
		if c < '0' || c > '9' {
			ok = false
		}
		val = val*10 + uint64(c-'0')
		if val >= 1<<31 {
			ok = false // also keeps val from growing beyond 64 bits for <= 19 digits
			val = 1 << 31
		}
	}
	if !ok {
		return 0, false
	}
	v := uint32(val)
	if marked {
		v |= 1 << 31
	}
	return v, true
}

// VerifC10Component: a single component (no '/') is accepted iff it is decimal digits
// plus an optional H or ', value < 2^31, and its value is the decimal reading.
//
//verif:run quick n=1..6
//verif:run thorough n=7..8
//verif:timeout 120
func VerifC10Component(n int) {
	s := verifString("comp", n)
	for i := 0; i < n; i++ {
		verifAssume(s[i] < 0x80 && s[i] != '/')
	}
	verifAssume(s != "m")
	p, err := ParsePath(s)
	want, ok := verifRefComponent(s)
	verifAssert("comp.accept", (err == nil) == ok)
	if err == nil && ok {
		verifAssert("comp.len", len(p) == 1)
		if len(p) == 1 {
			verifAssert("comp.value", p[0] == want)
		}
	}
	if err != nil {
		verifAssert("comp.nilpath", p == nil)
	}
}

// VerifC10Grammar: whole-string grammar for every ASCII string of length n.
//
//verif:run quick n=0..4
//verif:run thorough n=5..6
//verif:timeout 120
func VerifC10Grammar(n int) {
	s := verifString("s", n)
	for i := 0; i < n; i++ {
		verifAssume(s[i] < 0x80)
	}
	p, err := ParsePath(s)
	// reference
	ok := true
	var want []uint32
	if !(s == "" || s == "m") {
		rest := s
		if len(rest) >= 2 && rest[0] == 'm' && rest[1] == '/' {
			rest = rest[2:]
		}
		start := 0
		for i := 0; i <= len(rest); i++ {
			if i == len(rest) || rest[i] == '/' {
				v, cok := verifRefComponent(rest[start:i])
				if !cok {
					ok = false
				}
				want = append(want, v)
				start = i + 1
			}
		}
	}
	verifAssert("grammar.accept", (err == nil) == ok)
	if err == nil && ok {
		verifAssert("grammar.len", len(p) == len(want))
		if len(p) == len(want) {
			for i := range p {
				verifAssert("grammar.value", p[i] == want[i])
			}
		}
	}
}

// VerifC10RoundTrip: ParsePath(p.String()) == p for every path of length n whose indices are
// (hardened or not) below 10^d. Full 32-bit indices are outside: the decimal print/parse
// round trip is a multiply/divide-by-10 kernel that does not finish for more digits.
//
//verif:run quick n=0 d=1
//verif:run quick n=1 d=1..3
//verif:run quick n=2 d=1..2
//verif:run thorough n=1 d=4..5
//verif:run thorough n=2 d=3
//verif:run thorough n=3 d=1..2
//verif:timeout 120
func VerifC10RoundTrip(n, d int) {
	p := make(Path, n)
	lim := uint32(1)
	for k := 0; k < d; k++ {
		lim *= 10
	}
	for i := range p {
		p[i] = verifU32("idx")
		if d < 10 {
			verifAssume(p[i]&^hardened < lim)
		}
	}
	str := p.String()
	q, err := ParsePath(str)
	verifAssert("rt.noerr", err == nil)
	if err == nil {
		verifAssert("rt.len", len(q) == n)
		if len(q) == n {
			for i := range p {
				verifAssert("rt.value", q[i] == p[i])
			}
		}
	}
	// text marshalling goes through the same functions
	b, merr := p.MarshalText()
	verifAssert("rt.marshal", merr == nil && string(b) == str)
	var r Path
	uerr := r.UnmarshalText(b)
	verifAssert("rt.unmarshal.noerr", uerr == nil)
	if uerr == nil {
		verifAssert("rt.unmarshal.len", len(r) == n)
	}
}

// VerifC10LeadingZeros: a component made of z zeros followed by n arbitrary characters (so components of
// 11 and more characters are covered without the solver having to read 11 unknown digits): accepted iff
// the reference accepts, value = decimal reading — leading zeros neither change the value nor count
// against any length or range limit.
//
//verif:run quick z=8 n=3
//verif:run quick z=10 n=2
//verif:run quick z=19 n=2
//verif:run quick z=64 n=1
//verif:run thorough z=7,9 n=4
//verif:run thorough z=300 n=2
//verif:timeout 120
func VerifC10LeadingZeros(z, n int) {
	zeros := make([]byte, z)
	for i := range zeros {
		zeros[i] = '0'
	}
	tail := verifString("tail", n)
	for i := 0; i < n; i++ {
		verifAssume(tail[i] < 0x80 && tail[i] != '/')
	}
	s := string(zeros) + tail
	p, err := ParsePath(s)
	want, ok := verifRefComponent(s)
	verifAssert("zeros.accept", (err == nil) == ok)
	if err == nil && ok {
		verifAssert("zeros.value", len(p) == 1 && p[0] == want)
	}
	// and behind a prefix / as a later component
	q, err2 := ParsePath("m/7'/" + s)
	verifAssert("zeros.accept.later", (err2 == nil) == ok)
	if err2 == nil && ok {
		verifAssert("zeros.value.later", len(q) == 2 && q[0] == 7|hardened && q[1] == want)
	}
}

// VerifC10PrintStable: text obtained from MarshalText / String stays what it was while other paths are
// printed afterwards (a caller may keep it), and later prints are not influenced by earlier ones.
//
//verif:run quick d=2
//verif:run thorough d=4
//verif:timeout 120
func VerifC10PrintStable(d int) {
	lim := uint32(1)
	for k := 0; k < d; k++ {
		lim *= 10
	}
	a := Path{verifU32("a0"), verifU32("a1")}
	b := Path{verifU32("b0")}
	verifAssume(a[0]&^hardened < lim && a[1]&^hardened < lim && b[0]&^hardened < lim)
	ta, e1 := a.MarshalText()
	verifAssert("stable.noerr", e1 == nil)
	keep := string(ta)
	sb := b.String()
	tb, e2 := b.MarshalText()
	verifAssert("stable.noerr", e2 == nil)
	verifAssert("stable.first.text.kept", string(ta) == keep)
	verifAssert("stable.second.text", string(tb) == sb)
	sa := a.String()
	verifAssert("stable.first.again", sa == keep)
	verifAssert("stable.second.kept", string(tb) == sb)
	var r Path
	verifAssert("stable.first.parses", r.UnmarshalText(ta) == nil && len(r) == 2 && r[0] == a[0] && r[1] == a[1])
}
