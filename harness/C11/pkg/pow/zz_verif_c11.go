//go:build verif

package pow

import (
	"math"

	"github.com/iotaledger/iota.go/consts"
	"github.com/iotaledger/iota.go/curl"
	"github.com/iotaledger/iota.go/encoding/b1t6"
	"github.com/iotaledger/iota.go/trinary"
	refb1t6 "github.com/wollac/iota-crypto-demo/pkg/encoding/b1t6"
)

// VerifC11CheckState: for all bit-plane states, checkStateTrits(l, h, n) is the least lane whose
// last n trits are all zero (64 if none).
//
//verif:run quick n=0,1,2,13,243
//verif:run thorough n=3,27,81,162,242
func VerifC11CheckState(n int) {
	var l, h [consts.HashTrinarySize]uint
	for i := consts.HashTrinarySize - n; i < consts.HashTrinarySize; i++ {
		l[i], h[i] = uint(verifU64("l")), uint(verifU64("h"))
	}
	got := checkStateTrits(&l, &h, uint(n))
	want := 64
	for j := 63; j >= 0; j-- {
		zero := true
		for i := consts.HashTrinarySize - n; i < consts.HashTrinarySize; i++ {
			if ((l[i]^h[i])>>uint(j))&1 != 0 {
				zero = false
			}
		}
		if zero {
			want = j
		}
	}
	verifAssert("lane", got == want)
}

// VerifC11EncodeNonce: the nonce is placed as the b1t6 code of its 8 little-endian bytes.
func VerifC11EncodeNonce() {
	nonce := verifU64("nonce")
	dst := make(trinary.Trits, 48)
	encodeNonce(dst, nonce)
	for k := 0; k < 8; k++ {
		g := dst[6*k : 6*k+6]
		v := int(g[0]) + 3*int(g[1]) + 9*int(g[2]) + 27*int(g[3]) + 81*int(g[4]) + 243*int(g[5])
		verifAssert("nonce.byte", v == int(int8(byte(nonce>>uint(8*k)))))
		for _, t := range g {
			verifAssert("nonce.trit", t == -1 || t == 0 || t == 1)
		}
	}
}

// VerifC11Score: Score(msg) = 3^z / len(msg) with z the number of trailing zero trits of
// CurlP81(b1t6(Hash(msg without its last 8 bytes)) || b1t6(last 8 bytes) || 000); panics iff len < 8.
//
//verif:run quick n=0,7,8
//verif:run thorough n=1,9,16,40,100
//verif:timeout 300
func VerifC11Score(n int) {
	msg := verifBytes("msg", n)
	if n < 8 {
		verifAssert("short.panics", verifPanics(func() { Score(msg) }))
		return
	}
	// reference
	h := Hash.New()
	h.Write(msg[:n-8])
	digest := h.Sum(nil)
	buf := make(trinary.Trits, consts.HashTrinarySize)
	k := b1t6.Encode(buf, digest)
	verifAssert("digest.trits", k == 192)
	b1t6.Encode(buf[k:], msg[n-8:]) // the little-endian nonce bytes are the last 8 message bytes
	// the dependency's b1t6 encoder agrees with the repository's own (property C14)
	cmp := make(trinary.Trits, consts.HashTrinarySize)
	refb1t6.Encode(cmp, digest)
	refb1t6.Encode(cmp[192:], msg[n-8:])
	same := true
	for i := range buf {
		if buf[i] != cmp[i] {
			same = false
		}
	}
	verifAssert("b1t6.same.as.repository", same)
	c := curl.NewCurlP81()
	c.Absorb(buf)
	d, _ := c.Squeeze(consts.HashTrinarySize)
	z := 0
	run := true
	for i := consts.HashTrinarySize - 1; i >= 0; i-- {
		if d[i] != 0 {
			run = false
		}
		if run {
			z++
		}
	}
	// the implementation's zero count equals the independent count ...
	zi := trailingZeros(digest, uint64(msg[n-8])|uint64(msg[n-7])<<8|uint64(msg[n-6])<<16|uint64(msg[n-5])<<24|uint64(msg[n-4])<<32|uint64(msg[n-3])<<40|uint64(msg[n-2])<<48|uint64(msg[n-1])<<56)
	verifAssert("zeros", zi == z)
	// ... and the score is 3^zeros / length
	want := math.Pow(3, float64(zi)) / float64(n)
	got := Score(msg)
	verifAssert("score", math.Float64bits(got) == math.Float64bits(want))
}

// VerifC11RequiredZeros: for every message length and every target score, the zero count handed
// to the workers is at most 243 (a larger value makes a worker panic), and unless it is capped at
// 243 the score reached with that many zeros is not below the target; one zero fewer is.
//
//verif:run quick n=8,9,1000
//verif:run thorough n=16,1048584
//verif:timeout 300
func VerifC11RequiredZeros(n int) {
	target := math.Float64frombits(verifU64("target"))
	if !verifSymbolic() {
		verifZerosBank(n) // native replay: floating point is uninterpreted in the symbolic run; probe the rounding boundaries
	}
	z := requiredTrailingZeros(n, target)
	verifAssert("zeros.range", z <= consts.HashTrinarySize)
	if z < consts.HashTrinarySize {
		verifAssert("zeros.enough", !(math.Pow(3, float64(z))/float64(n) < target))
	}
	if z > 0 && z <= consts.HashTrinarySize {
		verifAssert("zeros.least", math.Pow(3, float64(z-1))/float64(n) < target)
	}
}

// verifZerosBank (replays only): targets at and one to three ulps above every attainable score
// 3^k/n, plus trivially low, huge and non-finite targets.
func verifZerosBank(n int) {
	check := func(t float64) {
		z := requiredTrailingZeros(n, t)
		verifAssert("bank.zeros.range", z <= consts.HashTrinarySize)
		if z < consts.HashTrinarySize {
			verifAssert("bank.zeros.enough", !(math.Pow(3, float64(z))/float64(n) < t))
		}
		if z > 0 && z <= consts.HashTrinarySize {
			verifAssert("bank.zeros.least", math.Pow(3, float64(z-1))/float64(n) < t)
		}
	}
	for k := 0; k <= 60; k++ {
		t := math.Pow(3, float64(k)) / float64(n)
		for u := 0; u < 4; u++ {
			check(t)
			t = math.Nextafter(t, math.Inf(1))
		}
	}
	for _, t := range []float64{0, -1, 1e-300, 0.01, 1 / (4 * float64(n)), math.MaxFloat64, math.Inf(1), math.NaN()} {
		check(t)
	}
}

// ---- the worker loop over the contract of the batched Curl dependency

var (
	verifBatches    int
	verifMaxBatches int
	verifDonePtr    *uint32
)

// replaces sync/atomic.AddUint64 in the symbolic run: counts hashed batches and raises the
// worker's done flag after verifMaxBatches (bounds the mining loop)
func verifStubAddUint64(p *uint64, d uint64) uint64 {
	*p += d
	verifBatches++
	if verifBatches >= verifMaxBatches && verifDonePtr != nil {
		*verifDonePtr = 1
	}
	return *p
}

// VerifC11Worker: for every digest and every start nonce (aligned or not), a nonce returned by the
// worker within the first `batches` batches has at least `target` trailing zero trits (so that, with
// requiredTrailingZeros and Score, the returned nonce meets the target score); a second call with
// another digest is independent of the first; the done flag ends the loop with ErrDone.
//
//verif:run quick target=1 batches=1
//verif:run thorough target=2 batches=1
//verif:run thorough target=1,3 batches=2
//verif:replace sync/atomic.AddUint64 verifStubAddUint64
//verif:timeout 300
func VerifC11Worker(target, batches int) {
	w := New(1)
	var digests [2][]byte
	var starts [2]uint64
	for round := 0; round < 2; round++ {
		digests[round] = verifBytes("digest", 32)
		starts[round] = verifU64("start")
	}
	// The sponge is uninterpreted in the symbolic run, so a counterexample fixes the digests and start
	// nonces but not the real hash values: the native replay walks a few neighbouring digests of the
	// reported ones (same start nonces) until the real hash exhibits the reported mismatch.
	tries := 1
	if !verifSymbolic() {
		tries = 32
	}
	for k := 0; k < tries; k++ {
		for round := 0; round < 2; round++ {
			digest := append([]byte{}, digests[round]...)
			digest[31] ^= byte(k)
			digest[30] ^= byte(round * k)
			start := starts[round]
			var done uint32
			var counter uint64
			verifBatches, verifMaxBatches, verifDonePtr = 0, batches, &done
			if !verifSymbolic() {
				verifDonePtr = nil // native replay: mine until found
			}
			nonce, err := w.worker(digest, start, uint(target), &done, &counter)
			if err != nil {
				verifAssert("worker.done", err == ErrDone)
				continue
			}
			verifReach("found")
			if !verifSymbolic() {
				verifAssert("worker.nonce.zeros", trailingZeros(digest, nonce) >= target)
				continue
			}
			// lane by lane (the sponge is opaque: only identical buffers have related outputs)
			hit := false
			for j := 0; j < 64*batches; j++ {
				if nonce == start+uint64(j) {
					hit = true
					verifAssert("worker.nonce.zeros", verifTailZero(digest, start+uint64(j), target))
				}
			}
			verifAssert("worker.nonce.range", hit)
		}
	}
}

// verifTailZero: the hash of the block for (digest, nonce), built exactly as trailingZeros builds it,
// ends in `target` zero trits (no data-dependent loop).
func verifTailZero(powDigest []byte, nonce uint64, target int) bool {
	buf := make(trinary.Trits, consts.HashTrinarySize)
	n := b1t6.Encode(buf, powDigest)
	encodeNonce(buf[n:], nonce)
	c := curl.NewCurlP81()
	c.Absorb(buf)
	d, _ := c.Squeeze(consts.HashTrinarySize)
	ok := true
	for i := consts.HashTrinarySize - target; i < consts.HashTrinarySize; i++ {
		if d[i] != 0 {
			ok = false
		}
	}
	return ok
}
