//go:build verif

package pow

import (
	"context"
	"math"
)

// Mine's plumbing under the sequential schedule (engine/sym/models_seq.go): each worker goroutine runs to
// completion at its go statement, the cancellation watcher is never scheduled (context not cancelled).

const verifMaxCalls = 4

var (
	verifWCalls   int
	verifWDigest  [verifMaxCalls][]byte
	verifWStart   [verifMaxCalls]uint64
	verifWTarget  [verifMaxCalls]uint
	verifWDoneIn  [verifMaxCalls]uint32
	verifWRetOK   [verifMaxCalls]bool
	verifWRetVal  [verifMaxCalls]uint64
	verifWSameCtr bool
	verifWCtr     *uint64
)

func verifStubWorker(w *Worker, powDigest []byte, startNonce uint64, target uint, done *uint32, counter *uint64) (uint64, error) {
	k := verifWCalls
	verifWCalls++
	verifWDigest[k] = append([]byte{}, powDigest...)
	verifWStart[k] = startNonce
	verifWTarget[k] = target
	verifWDoneIn[k] = *done
	if verifWCtr == nil {
		verifWCtr = counter
	} else if verifWCtr != counter {
		verifWSameCtr = false
	}
	if *done != 0 {
		return 0, ErrDone
	}
	if verifWRetOK[k] {
		return verifWRetVal[k], nil
	}
	return 0, ErrDone
}

// the required zero count as an uninterpreted function of (message length, target bits): its arithmetic is
// VerifC11RequiredZeros; Mine must pass on the value for THIS call's message length (data + 8 nonce bytes)
func verifStubRequired(msgLen int, targetScore float64) uint {
	b := make([]byte, 12)
	for i := 0; i < 4; i++ {
		b[i] = byte(msgLen >> (8 * uint(i)))
	}
	t := math.Float64bits(targetScore)
	for i := 0; i < 8; i++ {
		b[4+i] = byte(t >> (8 * uint(i)))
	}
	return uint(verifUF("required", 8, b))
}

// VerifC11Mine(workers, calls): `calls` successive Mine calls on one Worker with different data lengths
// and every float64 bit pattern as target: every worker receives Hash(data), start nonce
// i*floor((2^64-1)/workers) and requiredTrailingZeros(len(data)+8, target) of this call; Mine returns the
// nonce of the first worker that found one, later workers see the stop flag, ErrCancelled if none found.
//
//verif:run quick workers=1 calls=3
//verif:run quick workers=3 calls=1
//verif:run thorough workers=2 calls=4
//verif:run thorough workers=16 calls=1
//verif:replace (*github.com/wollac/iota-crypto-demo/pkg/pow.Worker).worker verifStubWorker
//verif:replace requiredTrailingZeros verifStubRequired
//verif:timeout 60
func VerifC11Mine(workers, calls int) {
	w := New(workers)
	lens := []int{0, 0, 5, 10}
	if !verifSymbolic() {
		// native: real workers; the returned nonce reaches the target score (Score is the real one)
		targets := []float64{1, 30, 4, 2.5, 0}
		for round := 0; round < 2; round++ {
			for ci, n := range lens[:calls] {
				data := make([]byte, n)
				for i := range data {
					data[i] = byte(5*i + 11*ci + round)
				}
				t := targets[(ci+round)%len(targets)]
				nonce, err := w.Mine(context.Background(), data, t)
				verifAssert("mine.native.noerror", err == nil)
				msg := append(append([]byte{}, data...), 0, 0, 0, 0, 0, 0, 0, 0)
				for i := 0; i < 8; i++ {
					msg[n+i] = byte(nonce >> (8 * uint(i)))
				}
				verifAssert("mine.native.score", Score(msg) >= t)
			}
		}
		return
	}
	for call := 0; call < calls; call++ {
		n := lens[call]
		data := verifBytes("data", n)
		t := math.Float64frombits(verifU64("target"))
		verifWCalls, verifWSameCtr, verifWCtr = 0, true, nil
		for i := 0; i < workers; i++ {
			verifWRetOK[i] = verifBool("found")
			verifWRetVal[i] = verifU64("nonce")
		}
		nonce, err := w.Mine(context.Background(), data, t)

		verifAssert("mine.workers.started", verifWCalls == workers)
		h := Hash.New()
		h.Write(data)
		digest := h.Sum(nil)
		want := verifStubRequired(n+8, t)
		width := uint64(math.MaxUint64) / uint64(workers)
		first := -1
		for i := 0; i < workers && i < verifWCalls; i++ {
			same := len(verifWDigest[i]) == len(digest)
			for j := 0; same && j < len(digest); j++ {
				if verifWDigest[i][j] != digest[j] {
					same = false
				}
			}
			verifAssert("mine.worker.digest", same)
			verifAssert("mine.worker.start", verifWStart[i] == uint64(i)*width)
			verifAssert("mine.worker.zeros", verifWTarget[i] == want)
			if first < 0 {
				verifAssert("mine.worker.flag.clear", verifWDoneIn[i] == 0)
				if verifWRetOK[i] {
					first = i
				}
			} else {
				verifAssert("mine.worker.flag.raised", verifWDoneIn[i] != 0)
			}
		}
		verifAssert("mine.worker.counter.shared", verifWSameCtr)
		if first >= 0 {
			verifReach("found")
			verifAssert("mine.returns.found", err == nil && nonce == verifWRetVal[first])
		} else {
			verifAssert("mine.returns.cancelled", err == ErrCancelled && nonce == 0)
		}
	}
}
