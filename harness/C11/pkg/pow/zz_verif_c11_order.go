//go:build verif

package pow

import (
	"github.com/iotaledger/iota.go/curl/bct"
	"github.com/iotaledger/iota.go/consts"
	"github.com/iotaledger/iota.go/curl"
	"github.com/iotaledger/iota.go/encoding/b1t6"
	"github.com/iotaledger/iota.go/trinary"
)

var (
	verifCSCalls int
	verifCSL     [3][consts.HashTrinarySize]uint
	verifCSH     [3][consts.HashTrinarySize]uint
	verifCSRet   [3]int
	verifCSArgN  [3]uint
	verifCSMax   int
	verifCSDone  *uint32
)

// replaces checkStateTrits in VerifC11WorkerOrder: records the state it is shown, answers arbitrarily
func verifStubCheckState(l, h *[consts.HashTrinarySize]uint, n uint) int {
	k := verifCSCalls
	verifCSCalls++
	verifCSL[k], verifCSH[k] = *l, *h
	verifCSArgN[k] = n
	if verifCSCalls >= verifCSMax && verifCSDone != nil {
		*verifCSDone = 1 // bound the loop: the stop flag is raised after verifCSMax batches
	}
	return verifCSRet[k]
}

// VerifC11WorkerOrder(batches): the worker loop with the lane test replaced by a recording stub (its own
// specification is VerifC11CheckState): for every digest and EVERY start nonce (so also batches that
// straddle a multiple of 2^8, 2^16, 2^32 ... in the nonce), batch k shows in lane j — for j = 0, 1, 31, 62,
// 63, all 243 trits — the Curl-P-81 hash (same opaque sponge as the unbatched iota.go Curl that
// trailingZeros/Score use) of the block trailingZeros builds for nonce start+64k+j; the zero target is passed
// on unchanged; the worker returns start+64k+i for the first batch whose lane test answers i < 64, ErrDone
// once the flag is raised. Much cheaper than VerifC11Worker (no lane test paths), and it stays executable
// when the loop body is restructured.
//
//verif:run quick batches=2
//verif:run thorough batches=3
//verif:replace checkStateTrits verifStubCheckState
//verif:timeout 300
func VerifC11WorkerOrder(batches int) {
	w := New(1)
	digest := verifBytes("digest", 32)
	start := verifU64("start")
	target := uint(verifU8("zeros"))
	verifAssume(target <= consts.HashTrinarySize)
	if !verifSymbolic() {
		// native: real lane test and hash; small targets; try the reported start nonce and a few neighbouring digests
		for k := 0; k < 16; k++ {
			d := append([]byte{}, digest...)
			d[31] ^= byte(k)
			for _, t := range []uint{1, 2, 3} {
				var done uint32
				var counter uint64
				nonce, err := w.worker(d, start, t, &done, &counter)
				verifAssert("order.native.noerror", err == nil)
				verifAssert("order.native.zeros", trailingZeros(d, nonce) >= int(t))
			}
		}
		return
	}
	for k := 0; k < batches; k++ {
		verifCSRet[k] = verifInt("lane")
		verifAssume(verifCSRet[k] >= 0 && verifCSRet[k] <= 64)
	}
	var done uint32
	var counter uint64
	verifCSCalls, verifCSMax, verifCSDone = 0, batches, &done
	nonce, err := w.worker(digest, start, target, &done, &counter)

	verifAssert("order.calls", verifCSCalls >= 1 && verifCSCalls <= batches)
	found := -1
	n := start
	for k := 0; k < batches; k++ {
		if found >= 0 {
			break
		}
		verifAssert("order.batch.hashed", verifCSCalls > k)
		verifAssert("order.args", verifCSArgN[k] == target)
		for _, j := range []int{0, 1, 31, 62, 63} {
			ref := verifRefHash(digest, n+uint64(j))
			same := true
			for i := 0; i < consts.HashTrinarySize; i++ {
				lb, hb := (verifCSL[k][i]>>uint(j))&1, (verifCSH[k][i]>>uint(j))&1
				var t int8
				switch {
				case lb == 0 && hb == 1:
					t = 1
				case lb == 1 && hb == 0:
					t = -1
				case lb == 0 && hb == 0:
					t = 5 // invalid code
				}
				if t != ref[i] {
					same = false
				}
			}
			verifAssert("order.lane.hash", same)
		}
		if verifCSRet[k] < 64 {
			found = k
			verifReach("found")
			verifAssert("order.returns.lane", err == nil && nonce == n+uint64(verifCSRet[k]))
		}
		n += 64
	}
	if found < 0 {
		verifAssert("order.done", err == ErrDone && verifCSCalls == batches)
		verifAssert("order.counter", counter == uint64(64*batches))
	}
}

// the hash trailingZeros computes for (digest, nonce), trit by trit
func verifRefHash(powDigest []byte, nonce uint64) trinary.Trits {
	buf := make(trinary.Trits, consts.HashTrinarySize)
	n := b1t6.Encode(buf, powDigest)
	encodeNonce(buf[n:], nonce)
	c := curl.NewCurlP81()
	c.Absorb(buf)
	d, _ := c.Squeeze(consts.HashTrinarySize)
	return d
}

// ---------------------------------------------------------------------------------------------
// The blocks the worker hands to the batched Curl, compared on the INPUT side.

var (
	verifABCalls int
	verifABBufs  [3][][]int8
	verifABCount [3]int
)

// replaces (*bct.Curl).Absorb in VerifC11WorkerBlocks: records a copy of every lane buffer
func verifStubBctAbsorb(c *bct.Curl, src []trinary.Trits, tritsCount int) error {
	k := verifABCalls
	verifABCalls++
	verifABCount[k] = tritsCount
	verifABBufs[k] = make([][]int8, len(src))
	for j := range src {
		verifABBufs[k][j] = append([]int8{}, src[j]...)
	}
	return nil
}

// replaces (*bct.Curl).CopyState: an arbitrary state (what the lane test then says is arbitrary anyway)
func verifStubBctCopyState(c *bct.Curl, l, h []uint) {}

// VerifC11WorkerBlocks(batches): for every digest and every start nonce, batch k hands the batched Curl
// exactly 64 blocks of 243 trits, block j = b1t6(digest) || b1t6(little-endian bytes of start+64k+j) ||
// 0 0 0 — i.e. the block trailingZeros/Score hash for that nonce — for ALL 64 lanes; compared trit by trit on
// the input side, so no sponge reasoning is involved (a counterexample is a start nonce, found by bit-vector
// reasoning about the carry, and replays natively through the real worker).
//
//verif:run quick batches=2
//verif:run thorough batches=3
//verif:replace checkStateTrits verifStubCheckState
//verif:replace (*github.com/iotaledger/iota.go/curl/bct.Curl).Absorb verifStubBctAbsorb
//verif:replace (*github.com/iotaledger/iota.go/curl/bct.Curl).CopyState verifStubBctCopyState
//verif:timeout 300
func VerifC11WorkerBlocks(batches int) {
	w := New(1)
	digest := verifBytes("digest", 32)
	start := verifU64("start")
	if !verifSymbolic() {
		for k := 0; k < 16; k++ {
			d := append([]byte{}, digest...)
			d[31] ^= byte(k)
			for _, t := range []uint{1, 2, 3} {
				var done uint32
				var counter uint64
				nonce, err := w.worker(d, start, t, &done, &counter)
				verifAssert("blocks.native.noerror", err == nil)
				verifAssert("blocks.native.zeros", trailingZeros(d, nonce) >= int(t))
			}
		}
		return
	}
	for k := 0; k < batches; k++ {
		verifCSRet[k] = 64 // the lane test never finds anything: all batches are built
	}
	var done uint32
	var counter uint64
	verifCSCalls, verifCSMax, verifCSDone = 0, batches, &done
	verifABCalls = 0
	_, err := w.worker(digest, start, 1, &done, &counter)
	verifAssert("blocks.done", err == ErrDone)
	verifAssert("blocks.batches", verifABCalls == batches && verifCSCalls == batches)
	n := start
	for k := 0; k < batches && k < verifABCalls; k++ {
		verifAssert("blocks.shape", verifABCount[k] == consts.HashTrinarySize && len(verifABBufs[k]) == 64)
		for j := 0; j < 64 && j < len(verifABBufs[k]); j++ {
			want := make(trinary.Trits, consts.HashTrinarySize)
			m := b1t6.Encode(want, digest)
			var nb [8]byte
			v := n + uint64(j)
			for i := 0; i < 8; i++ {
				nb[i] = byte(v >> (8 * uint(i)))
			}
			b1t6.Encode(want[m:], nb[:])
			got := verifABBufs[k][j]
			same := len(got) >= consts.HashTrinarySize
			for i := 0; same && i < consts.HashTrinarySize; i++ {
				if got[i] != want[i] {
					same = false
				}
			}
			verifAssert("blocks.lane.block", same)
		}
		n += 64
	}
}
