//go:build verif

package v2

import (
	"math"
	"math/big"

	"github.com/iotaledger/iota.go/consts"
)

func verifPow3(k int) *big.Int {
	r := big.NewInt(1)
	three := big.NewInt(3)
	for i := 0; i < k; i++ {
		r.Mul(r, three)
	}
	return r
}

// VerifC12Constants: maxHash = 3^243 and uint64Radix = 3^40 (ground facts about the tables).
//
//verif:big int
func VerifC12Constants() {
	verifAssert("maxhash", maxHash.Cmp(verifPow3(243)) == 0)
	verifAssert("radix", uint64Radix.Cmp(verifPow3(40)) == 0)
	verifAssert("one", one.Cmp(big.NewInt(1)) == 0)
}

// VerifC12ToInt: for all 243 trits, toInt = 1 + sum d_i 3^i with digit 2 for trit -1, and no
// uint64 chunk overflows (the word-to-integer conversion is only exact under that obligation).
//
// Trits a and b are arbitrary, all others 0 (a = b: one arbitrary trit). Every single position and
// the pairs straddling each 40-trit chunk boundary are covered; with all 243 trits arbitrary (or
// already 6) the solvers do not finish, so the full formula rests on these weights plus the
// code's additive structure.
//
//verif:run quick a=0..242 b=-1
//verif:run quick a=39 b=40
//verif:run quick a=79 b=80
//verif:run quick a=119 b=120
//verif:run quick a=159 b=160
//verif:run quick a=199 b=200
//verif:run quick a=239 b=240
//verif:run quick a=0 b=242
//verif:run thorough a=0,1,38,39 b=40,41,80,241
//verif:big int
//verif:solver z3
//verif:timeout 300
func VerifC12ToInt(a, b int) {
	free := map[int]bool{a: true}
	if b >= 0 {
		free[b] = true
	}
	raw := make([]byte, consts.HashTrinarySize)
	for i := range raw {
		if free[i] {
			raw[i] = verifU8("trit")
		}
	}
	trits := make([]int8, len(raw))
	ref := big.NewInt(0)
	three := big.NewInt(3)
	for i := len(raw) - 1; i >= 0; i-- {
		t := int8(raw[i])
		verifAssume(t == -1 || t == 0 || t == 1)
		trits[i] = t
		d := int64(t)
		if t == -1 {
			d = 2
		}
		ref.Mul(ref, three)
		ref.Add(ref, big.NewInt(d))
	}
	ref.Add(ref, big.NewInt(1))
	got := toInt(trits)
	verifAssert("toint.value", got.Cmp(ref) == 0)
	verifAssert("toint.positive", got.Sign() > 0)
}

// VerifC12Target: with lx = (len(data)+8)*t fitting 64 bits, targetHash = floor(3^243/(lx+1)),
// and comparing a hash value h >= 1 with it is sound (h <= T => floor(M/h) >= lx) and complete
// with margin (floor(M/h) > lx => h <= T). h ranges over all integers in [1, 2^392).
//
//verif:run quick n=0,1,7,1000
//verif:run thorough n=2,8,100,65535,1048576
//verif:big int
//verif:solver z3
//verif:timeout 300
func VerifC12Target(n int) {
	data := make([]byte, n)
	t := verifU64("target")
	verifAssume(t >= 1)
	verifAssume(t <= math.MaxUint64/uint64(n+8)) // the property's precondition: (len+8)*t fits 64 bits
	lx := new(big.Int).Mul(new(big.Int).SetUint64(t), big.NewInt(int64(n+8)))
	verifAssert("lx.fits", lx.IsUint64())

	T := targetHash(data, t)
	M := verifPow3(243)
	ref := new(big.Int).Quo(M, new(big.Int).Add(lx, big.NewInt(1)))
	verifAssert("target.value", T.Cmp(ref) == 0)

	h := verifBig("h", 392)
	verifAssume(h.Sign() > 0)
	d := new(big.Int).Quo(M, h)
	if h.Cmp(T) <= 0 {
		verifAssert("target.sound", d.Cmp(lx) >= 0)
	}
	if d.Cmp(lx) > 0 {
		verifAssert("target.complete", h.Cmp(T) <= 0)
	}
}

var verifPow3Table = func() (t [42]uint64) {
	v := uint64(1)
	for i := range t {
		t[i] = v
		if i < 40 {
			v *= 3
		}
	}
	return
}()

// VerifC12Sufficient: sufficientTrailingZeros = least s with 3^s >= lx (41 if 3^40 < lx);
// panics exactly when (len+8)*t does not fit 64 bits by the function's own guard.
//
//verif:run quick n=0,1,7,1000
//verif:run thorough n=2,8,100,65535,1048576
func VerifC12Sufficient(n int) {
	data := make([]byte, n)
	t := verifU64("target")
	L := uint64(n + 8)
	fits := t <= math.MaxUint64/L
	if !fits {
		return // outside the property's precondition ((len+8)*t must fit 64 bits)
	}
	lx := L * t
	s := sufficientTrailingZeros(data, t)
	verifAssert("range", s >= 0 && s <= 41)
	if s >= 0 && s <= 41 {
		if s <= 40 {
			verifAssert("enough", verifPow3Table[s] >= lx)
		}
		if s >= 1 {
			verifAssert("least", verifPow3Table[s-1] < lx)
		}
	}
}

func verifLaneQualifies(l, h *[consts.HashTrinarySize]uint, j int, tv uint64, target *big.Int) bool {
	if verifSymbolic() {
		return verifUF("laneHash", 64, []byte{byte(j)}) <= tv
	}
	return stateToInt(l, h, uint(j)).Cmp(target) <= 0
}

// stub for stateToInt: an arbitrary hash value per lane (meaning checked by VerifC12ToInt/StateToInt)
func verifStubStateToInt(l, h *[consts.HashTrinarySize]uint, idx uint) *big.Int {
	return new(big.Int).SetUint64(verifUF("laneHash", 64, []byte{byte(idx)}))
}

// VerifC12CheckState: for every bit-plane state and every s, checkStateTrits returns 64 if no lane
// has s-1 trailing zeros, else the least lane with >= s trailing zeros if any, else the least lane
// with exactly s-1 trailing zeros whose hash value is <= target, else 64.
//
//verif:run quick s=2,3,5
//verif:run thorough s=4,6,7,8
//verif:big bv 400
//verif:solver cvc5
//verif:replace stateToInt verifStubStateToInt
//verif:timeout 300
func VerifC12CheckState(s int) {
	var l, h [consts.HashTrinarySize]uint
	// lanes 0, 1, 2, 61, 62, 63 are arbitrary; in the other lanes every inspected trit is non-zero
	// (all 64 lanes arbitrary does not finish in the solver)
	const lanes = uint(0xE000000000000007)
	for i := consts.HashTrinarySize - s; i < consts.HashTrinarySize; i++ {
		l[i] = uint(verifU64("l")) & lanes
		h[i] = uint(verifU64("h"))&lanes | ^lanes
	}
	tv := verifU64("target")
	target := new(big.Int).SetUint64(tv)
	if !verifSymbolic() {
		// native replay: stateToInt is the real one; use the two extreme targets (every lane
		// qualifies / no lane qualifies) instead of the uninterpreted lane values of the model
		if verifVariant() == 0 {
			target = new(big.Int).Set(maxHash)
		} else {
			target = new(big.Int)
		}
	}
	got := checkStateTrits(&l, &h, s, target)

	// reference, lane by lane
	anyShort := false // some lane has >= s-1 trailing zeros
	first := 64       // least lane with >= s trailing zeros
	cand := 64        // least lane with exactly s-1 trailing zeros and hash <= target
	for j := 63; j >= 0; j-- {
		zc := 0
		run := true
		for i := consts.HashTrinarySize - 1; i >= consts.HashTrinarySize-s; i-- {
			if ((l[i]^h[i])>>uint(j))&1 != 0 {
				run = false
			}
			if run {
				zc++
			}
		}
		if zc >= s-1 {
			anyShort = true
		}
		if zc >= s {
			first = j
		}
		if zc == s-1 {
			if verifLaneQualifies(&l, &h, j, tv, target) {
				cand = j
			}
		}
	}
	want := 64
	if anyShort {
		if first < 64 {
			want = first
		} else {
			want = cand
		}
	}
	verifAssert("lane", got == want)
}

// VerifC12StateToInt: stateToInt reads lane idx of the planes with the coding (l,h) = (1,1)->0,
// (0,1)->+1, (1,0)->-1 into toInt.
//
//verif:run quick k=0,1,121,242
//verif:big int
//verif:replace toInt verifStubToInt
func VerifC12StateToInt(k int) {
	var l, h [consts.HashTrinarySize]uint
	lw, hw := uint(verifU64("l")), uint(verifU64("h"))
	l[k], h[k] = lw, hw
	idx := uint(verifU8("idx"))
	verifAssume(idx < 64)
	verifObservedK = k
	stateToInt(&l, &h, idx)
	lb, hb := (lw>>idx)&1, (hw>>idx)&1
	var want int8
	switch {
	case lb == 0 && hb == 1:
		want = 1
	case lb == 1 && hb == 0:
		want = -1
	}
	verifAssert("lane.trit", verifObservedTrit == want)
	verifAssert("lane.others", verifObservedOthersZero)
}

var (
	verifObservedK          int
	verifObservedTrit       int8
	verifObservedOthersZero bool
)

func verifStubToInt(trits []int8) *big.Int {
	verifObservedOthersZero = len(trits) == consts.HashTrinarySize
	for i, t := range trits {
		if i == verifObservedK {
			verifObservedTrit = t
		} else if t != 0 {
			verifObservedOthersZero = false
		}
	}
	return big.NewInt(1)
}

// VerifC12CheckStateReal: the same specification with the real stateToInt/toInt (no stub), for
// the lanes 0, 1, 62, 63 and an arbitrary target below 3^243: counterexamples replay natively.
//
//verif:run quick s=2
//verif:run thorough s=3
//verif:big int
//verif:solver z3
//verif:timeout 300
func VerifC12CheckStateReal(s int) {
	var l, h [consts.HashTrinarySize]uint
	const lanes = uint(0xC000000000000003)
	for i := 0; i < consts.HashTrinarySize-s; i++ {
		l[i], h[i] = ^uint(0), ^uint(0) // trit 0 in every lane
	}
	for i := consts.HashTrinarySize - s; i < consts.HashTrinarySize; i++ {
		l[i] = uint(verifU64("l"))&lanes | ^lanes
		h[i] = uint(verifU64("h")) & lanes // other lanes: (1,0) = -1, a non-zero trit
		verifAssume((l[i]|h[i])&lanes == lanes) // valid codes only
	}
	target := verifBig("target", 386)
	got := checkStateTrits(&l, &h, s, target)

	anyShort := false
	first := 64
	cand := 64
	for _, j := range []int{63, 62, 1, 0} {
		zc := 0
		run := true
		for i := consts.HashTrinarySize - 1; i >= consts.HashTrinarySize-s; i-- {
			if ((l[i]^h[i])>>uint(j))&1 != 0 {
				run = false
			}
			if run {
				zc++
			}
		}
		if zc >= s-1 {
			anyShort = true
		}
		if zc >= s {
			first = j
		}
		if zc == s-1 {
			// hash value of lane j: 1 + sum d_i 3^i over its trits (only the last s can be non-zero)
			hv := big.NewInt(1)
			for i := consts.HashTrinarySize - s; i < consts.HashTrinarySize; i++ {
				lb, hb := (l[i]>>uint(j))&1, (h[i]>>uint(j))&1
				d := int64(0)
				if lb == 0 && hb == 1 {
					d = 1
				}
				if lb == 1 && hb == 0 {
					d = 2
				}
				hv.Add(hv, new(big.Int).Mul(big.NewInt(d), verifPow3(i)))
			}
			if hv.Cmp(target) <= 0 {
				cand = j
			}
		}
	}
	want := 64
	if anyShort {
		if first < 64 {
			want = first
		} else {
			want = cand
		}
	}
	verifAssert("lane.real", got == want)
}
