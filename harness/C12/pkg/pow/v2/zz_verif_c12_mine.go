//go:build verif

package v2

import (
	"context"
	"math"
	"math/big"

	"github.com/iotaledger/iota.go/consts"
	"github.com/iotaledger/iota.go/curl"
	"github.com/iotaledger/iota.go/encoding/b1t6"
	"github.com/iotaledger/iota.go/trinary"
	"golang.org/x/crypto/blake2b"
)

// ---------------------------------------------------------------------------------------------
// Mine's plumbing under the sequential schedule (engine/sym/models_seq.go): what reaches the
// workers and what comes back.

const verifMaxCalls = 4

var (
	verifWCalls   int
	verifWDigest  [verifMaxCalls][]byte
	verifWStart   [verifMaxCalls]uint64
	verifWSuff    [verifMaxCalls]int
	verifWTarget  [verifMaxCalls]*big.Int
	verifWDoneIn  [verifMaxCalls]uint32
	verifWRetOK   [verifMaxCalls]bool
	verifWRetVal  [verifMaxCalls]uint64
	verifWSameCtr bool
	verifWCtr     *uint64
)

// replaces (*Worker).worker in VerifC12Mine: records its arguments and returns an arbitrary outcome
func verifStubWorker(w *Worker, powDigest []byte, startNonce uint64, sufficientTrailing int, target *big.Int, done *uint32, counter *uint64) (uint64, error) {
	k := verifWCalls
	verifWCalls++
	verifWDigest[k] = append([]byte{}, powDigest...)
	verifWStart[k] = startNonce
	verifWSuff[k] = sufficientTrailing
	verifWTarget[k] = target
	verifWDoneIn[k] = *done
	if verifWCtr == nil {
		verifWCtr = counter
	} else if verifWCtr != counter {
		verifWSameCtr = false
	}
	if *done != 0 {
		return 0, ErrDone // what the real worker does when the flag is already raised
	}
	if verifWRetOK[k] {
		return verifWRetVal[k], nil
	}
	return 0, ErrDone
}

// In VerifC12Mine the two threshold functions are uninterpreted functions of (message length, target): what
// Mine must hand to its workers is "the thresholds of THIS call's data and target", whatever their
// arithmetic (which VerifC12Sufficient / VerifC12Target decide).
func verifStubTargetHash(data []byte, targetScore uint64) *big.Int {
	return new(big.Int).SetUint64(verifUF("targetHash", 64, verifLenTarget(len(data), targetScore)))
}

func verifStubSufficient(data []byte, targetScore uint64) int {
	return int(verifUF("sufficient", 8, verifLenTarget(len(data), targetScore)))
}

func verifLenTarget(n int, t uint64) []byte {
	b := make([]byte, 12)
	for i := 0; i < 4; i++ {
		b[i] = byte(n >> (8 * uint(i)))
	}
	for i := 0; i < 8; i++ {
		b[4+i] = byte(t >> (8 * uint(i)))
	}
	return b
}

// VerifC12Mine: (workers, calls) — `calls` successive Mine calls on ONE Worker value with different data
// lengths and targets (state kept between calls must not leak): every worker receives the BLAKE2b-256
// digest of the data, start nonce i*floor((2^64-1)/workers), sufficientTrailingZeros(data, t) and
// targetHash(data, t) of THIS call; Mine returns the nonce of the first worker that found one (under the
// sequential schedule), workers started after a find see the stop flag, ErrCancelled when none found;
// target 0 returns (0, nil) without work.
//
//verif:run quick workers=1 calls=3
//verif:run quick workers=3 calls=1
//verif:run thorough workers=2 calls=4
//verif:run thorough workers=64 calls=1
//verif:big int
//verif:replace (*github.com/wollac/iota-crypto-demo/pkg/pow/v2.Worker).worker verifStubWorker
//verif:replace targetHash verifStubTargetHash
//verif:replace sufficientTrailingZeros verifStubSufficient
//verif:timeout 60
func VerifC12Mine(workers, calls int) {
	w := New(workers)
	lens := []int{0, 0, 5, 10} // 0*t = 0*t' and 5*t = 10*t' have solutions: incomplete memoisation keys collide
	if !verifSymbolic() {
		verifC12MineNative(w, lens[:calls])
		return
	}
	for call := 0; call < calls; call++ {
		n := lens[call]
		data := verifBytes("data", n)
		t := verifU64("target")
		verifAssume(t >= 1)
		verifAssume(t <= math.MaxUint64/uint64(n+8))
		verifWCalls, verifWSameCtr, verifWCtr = 0, true, nil
		for i := 0; i < workers; i++ {
			verifWRetOK[i] = verifBool("found")
			verifWRetVal[i] = verifU64("nonce")
		}
		nonce, err := w.Mine(context.Background(), data, t)

		verifAssert("mine.workers.started", verifWCalls == workers)
		digest := blake2b.Sum256(data)
		wantS := sufficientTrailingZeros(data, t)
		wantT := targetHash(data, t)
		width := uint64(math.MaxUint64) / uint64(workers)
		first := -1
		for i := 0; i < workers && i < verifWCalls; i++ {
			same := len(verifWDigest[i]) == 32
			for j := 0; same && j < 32; j++ {
				if verifWDigest[i][j] != digest[j] {
					same = false
				}
			}
			verifAssert("mine.worker.digest", same)
			verifAssert("mine.worker.start", verifWStart[i] == uint64(i)*width)
			verifAssert("mine.worker.sufficient", verifWSuff[i] == wantS)
			verifAssert("mine.worker.target", verifWTarget[i] != nil && verifWTarget[i].Cmp(wantT) == 0)
			if first < 0 {
				verifAssert("mine.worker.flag.clear", verifWDoneIn[i] == 0)
				if verifWRetOK[i] {
					first = i
				}
			} else {
				verifAssert("mine.worker.flag.raised", verifWDoneIn[i] != 0)
			}
		}
		verifAssert("mine.worker.counter.shared", verifWSameCtr)
		if first >= 0 {
			verifReach("found")
			verifAssert("mine.returns.found", err == nil && nonce == verifWRetVal[first])
		} else {
			verifAssert("mine.returns.cancelled", err == ErrCancelled && nonce == 0)
		}
	}
	// the zero target is trivial
	nz, ez := w.Mine(context.Background(), verifBytes("zdata", 3), 0)
	verifAssert("mine.zero.target", nz == 0 && ez == nil)
}

// native concretisation: real workers, small targets; the returned nonce must reach the target score and
// (single worker) no earlier block of 64 nonces may hold a nonce whose difficulty exceeds len*t
func verifC12MineNative(w *Worker, lens []int) {
	targets := []uint64{3, 300, 40, 20, 2}
	for round := 0; round < 2; round++ {
		for ci, n := range lens {
			data := make([]byte, n)
			for i := range data {
				data[i] = byte(7*i + 13*ci + round)
			}
			t := targets[(ci+round)%len(targets)]
			nonce, err := w.Mine(context.Background(), data, t)
			verifAssert("mine.native.noerror", err == nil)
			verifAssert("mine.native.score", verifNativeScore(data, nonce) >= t)
			if w.numWorkers == 1 {
				lx := new(big.Int).Mul(big.NewInt(int64(n+8)), new(big.Int).SetUint64(t))
				digest := blake2b.Sum256(data)
				ok := true
				for m := uint64(0); m < nonce&^63; m++ {
					if difficulty(digest[:], m).Cmp(lx) > 0 {
						ok = false
					}
				}
				verifAssert("mine.native.no.pass.over", ok)
			}
		}
	}
}

func verifNativeScore(data []byte, nonce uint64) uint64 {
	msg := append(append([]byte{}, data...), 0, 0, 0, 0, 0, 0, 0, 0)
	for i := 0; i < 8; i++ {
		msg[len(data)+i] = byte(nonce >> (8 * uint(i)))
	}
	return Score(msg)
}

// ---------------------------------------------------------------------------------------------
// The worker loop: which states reach the lane test, in which order, and what is returned.

var (
	verifCSCalls int
	verifCSL     [3][consts.HashTrinarySize]uint
	verifCSH     [3][consts.HashTrinarySize]uint
	verifCSRet   [3]int
	verifCSArgS  [3]int
	verifCSArgT  [3]*big.Int
	verifCSMax   int
	verifCSDone  *uint32
)

// replaces checkStateTrits in VerifC12WorkerOrder: records the state it is shown, answers arbitrarily
func verifStubCheckState(l, h *[consts.HashTrinarySize]uint, sufficientTrailing int, target *big.Int) int {
	k := verifCSCalls
	verifCSCalls++
	verifCSL[k], verifCSH[k] = *l, *h
	verifCSArgS[k], verifCSArgT[k] = sufficientTrailing, target
	if verifCSCalls >= verifCSMax && verifCSDone != nil {
		*verifCSDone = 1 // bound the loop: the stop flag is raised after verifCSMax batches
	}
	return verifCSRet[k]
}

// VerifC12WorkerOrder(batches): for every digest and every start nonce the worker shows the lane test, in
// this order, the batches start, start+64, ...; in batch k lane j holds the Curl-P-81 hash (same opaque
// sponge as the unbatched iota.go Curl that `difficulty` uses) of the block b1t6(digest) || b1t6(LE nonce
// start+64k+j) || 0..0 for the lanes 0, 1, 31, 62, 63 (all 243 trits); it passes its own s and target
// on; it returns start+64k+i for the first batch whose lane test answers i < 64 and ErrDone when the flag
// is raised. Together with the lane-test specification (VerifC12CheckState*), stateToInt/toInt and the
// target lemmas this is the property's "never returns a non-qualifying nonce, never passes over a block
// with a clearly qualifying one".
//
//verif:run quick batches=2
//verif:run thorough batches=3
//verif:big int
//verif:replace checkStateTrits verifStubCheckState
//verif:timeout 300
func VerifC12WorkerOrder(batches int) {
	w := New(1)
	digest := verifBytes("digest", 32)
	start := verifU64("start")
	s := verifInt("s")
	verifAssume(s >= 0 && s <= consts.HashTrinarySize)
	target := new(big.Int).SetUint64(verifU64("targethash"))
	if !verifSymbolic() {
		verifC12WorkerNative(w, digest, start)
		return
	}
	for k := 0; k < batches; k++ {
		verifCSRet[k] = verifInt("lane")
		verifAssume(verifCSRet[k] >= 0 && verifCSRet[k] <= 64) // checkStateTrits' range (VerifC12CheckState)
	}
	var done uint32
	var counter uint64
	verifCSCalls, verifCSMax, verifCSDone = 0, batches, &done
	nonce, err := w.worker(digest, start, s, target, &done, &counter)

	verifAssert("order.calls", verifCSCalls >= 1 && verifCSCalls <= batches)
	found := -1
	n := start
	for k := 0; k < batches; k++ {
		if found >= 0 {
			break
		}
		verifAssert("order.batch.hashed", verifCSCalls > k)
		verifAssert("order.args", verifCSArgS[k] == s && verifCSArgT[k] != nil && verifCSArgT[k].Cmp(target) == 0)
		for _, j := range []int{0, 1, 31, 62, 63} {
			ref := verifRefHash(digest, n+uint64(j))
			same := true
			for i := 0; i < consts.HashTrinarySize; i++ {
				lb, hb := (verifCSL[k][i]>>uint(j))&1, (verifCSH[k][i]>>uint(j))&1
				var t int8
				switch {
				case lb == 0 && hb == 1:
					t = 1
				case lb == 1 && hb == 0:
					t = -1
				case lb == 0 && hb == 0:
					t = 5 // invalid code
				}
				if t != ref[i] {
					same = false
				}
			}
			verifAssert("order.lane.hash", same)
		}
		if verifCSRet[k] < 64 {
			found = k
			verifReach("found")
			verifAssert("order.returns.lane", err == nil && nonce == n+uint64(verifCSRet[k]))
		}
		n += 64
	}
	if found < 0 {
		verifAssert("order.done", err == ErrDone && verifCSCalls == batches)
		verifAssert("order.counter", counter == uint64(64*batches))
	}
	// a raised flag stops the worker before any hashing
	done = 1
	verifCSCalls = 0
	_, err2 := w.worker(digest, start, s, target, &done, &counter)
	verifAssert("order.flag.first", err2 == ErrDone && verifCSCalls == 0)
}

// the hash `difficulty` computes for (digest, nonce), trit by trit
func verifRefHash(powDigest []byte, nonce uint64) trinary.Trits {
	buf := make(trinary.Trits, consts.HashTrinarySize)
	n := b1t6.Encode(buf, powDigest)
	encodeNonce(buf[n:], nonce)
	c := curl.NewCurlP81()
	c.Absorb(buf)
	d, _ := c.Squeeze(consts.HashTrinarySize)
	return d
}

// native concretisation of the worker: real lane test, real hash; the first qualifying block is found
func verifC12WorkerNative(w *Worker, digest []byte, start uint64) {
	for _, t := range []uint64{2, 30, 400} {
		data := make([]byte, 24) // only its length matters here
		s := sufficientTrailingZeros(data, t)
		target := targetHash(data, t)
		lx := new(big.Int).SetUint64(32 * t)
		var done uint32
		var counter uint64
		nonce, err := w.worker(digest, start, s, target, &done, &counter)
		verifAssert("worker.native.noerror", err == nil)
		verifAssert("worker.native.qualifies", difficulty(digest, nonce).Cmp(lx) >= 0)
		ok := true
		for m := start; m != start+((nonce-start)&^63); m++ {
			if difficulty(digest, m).Cmp(lx) > 0 {
				ok = false
			}
		}
		verifAssert("worker.native.no.pass.over", ok)
		// within the block: no smaller lane qualifies with margin either
		for m := start + ((nonce - start) &^ 63); m != nonce; m++ {
			if difficulty(digest, m).Cmp(lx) > 0 {
				ok = false
			}
		}
		verifAssert("worker.native.least.lane", ok)
	}
}

// ---------------------------------------------------------------------------------------------
// Score

var (
	verifTIHash  *big.Int
	verifTITrits trinary.Trits
	verifDiffD   *big.Int
	verifDiffDig []byte
	verifDiffN   uint64
)

func verifStubToIntScore(trits trinary.Trits) *big.Int {
	verifTITrits = append(trinary.Trits{}, trits...)
	return new(big.Int).Set(verifTIHash)
}

func verifStubDifficulty(powDigest []byte, nonce uint64) *big.Int {
	verifDiffDig = append([]byte{}, powDigest...)
	verifDiffN = nonce
	return new(big.Int).Set(verifDiffD)
}

func verifLEU64(b []byte) uint64 {
	var v uint64
	for i := 0; i < 8; i++ {
		v |= uint64(b[i]) << (8 * uint(i))
	}
	return v
}

// the score by definition, natively: floor(floor(3^243/h)/n) saturated, h from the reference hash
func verifScoreByDefinition(msg []byte) uint64 {
	n := len(msg)
	digest := blake2b.Sum256(msg[:n-8])
	ref := verifRefHash(digest[:], verifLEU64(msg[n-8:]))
	hv := big.NewInt(0)
	for i := consts.HashTrinarySize - 1; i >= 0; i-- {
		d := int64(ref[i])
		if d < 0 {
			d = 2
		}
		hv.Mul(hv, big.NewInt(3))
		hv.Add(hv, big.NewInt(d))
	}
	hv.Add(hv, big.NewInt(1))
	q := new(big.Int).Quo(new(big.Int).Quo(verifPow3(243), hv), big.NewInt(int64(n)))
	if q.IsUint64() {
		return q.Uint64()
	}
	return math.MaxUint64
}

// VerifC12Score(n): for every message of n bytes and every difficulty d in [0, 3^243] (difficulty's
// range), Score = min(floor(d/n), 2^64-1) — both the uint64 fast path and the big.Int fallback — with d
// the difficulty of (BLAKE2b-256(msg without the last 8 bytes), little-endian last 8 bytes); shorter
// messages panic. The obligation is stated with multiplications (q*n <= d < q*n+n), not with the
// implementation's own divisions.
//
//verif:run quick n=7,8,9,1000
//verif:run thorough n=0,12,65536,1048576
//verif:big int
//verif:solver cvc5-int
//verif:replace difficulty verifStubDifficulty
//verif:timeout 120
func VerifC12Score(n int) {
	msg := verifBytes("msg", n)
	if n < 8 {
		verifAssert("score.short.panics", verifPanics(func() { Score(msg) }))
		return
	}
	if !verifSymbolic() {
		verifAssert("score.value", Score(msg) == verifScoreByDefinition(msg))
		return
	}
	M := verifPow3(243)
	d := verifBig("d", 386)
	verifAssume(d.Cmp(M) <= 0)
	verifDiffD = d
	got := Score(msg)

	nn := big.NewInt(int64(n))
	lim := new(big.Int).Mul(new(big.Int).Lsh(big.NewInt(1), 64), nn) // floor(d/n) >= 2^64  <=>  d >= 2^64*n
	if d.Cmp(lim) < 0 {
		lo := new(big.Int).Mul(new(big.Int).SetUint64(got), nn)
		verifAssert("score.value.lower", lo.Cmp(d) <= 0)
		verifAssert("score.value.upper", d.Cmp(new(big.Int).Add(lo, nn)) < 0)
	} else {
		verifReach("saturated")
		verifAssert("score.saturates", got == math.MaxUint64)
	}
	digest := blake2b.Sum256(msg[:n-8])
	same := len(verifDiffDig) == 32
	for i := 0; same && i < 32; i++ {
		if verifDiffDig[i] != digest[i] {
			same = false
		}
	}
	verifAssert("score.digest", same)
	verifAssert("score.nonce", verifDiffN == verifLEU64(msg[n-8:]))
}

// VerifC12Difficulty: for every 32-byte digest, nonce and hash value, difficulty = floor(3^243 / toInt(hash))
// where hash is the Curl-P-81 hash (opaque sponge) of b1t6(digest) || b1t6(LE nonce) || 0..0.
//
//verif:big int
//verif:replace toInt verifStubToIntScore
func VerifC12Difficulty() {
	digest := verifBytes("digest", 32)
	nonce := verifU64("nonce")
	if !verifSymbolic() {
		msg := append(append([]byte{}, digest...), 0, 0, 0, 0, 0, 0, 0, 0)
		for i := 0; i < 8; i++ {
			msg[32+i] = byte(nonce >> (8 * uint(i)))
		}
		verifAssert("score.value", Score(msg) == verifScoreByDefinition(msg))
		return
	}
	h := verifBig("h", 386)
	verifAssume(h.Sign() > 0)
	verifTIHash = h
	d := difficulty(digest, nonce)
	verifAssert("difficulty.value", d.Cmp(new(big.Int).Quo(verifPow3(243), h)) == 0)
	ref := verifRefHash(digest, nonce)
	same := len(verifTITrits) == consts.HashTrinarySize
	for i := 0; same && i < consts.HashTrinarySize; i++ {
		if verifTITrits[i] != ref[i] {
			same = false
		}
	}
	verifAssert("difficulty.hash.input", same)
	// the block layout, independently: 192 digest trits by the repository-independent b1t6 table, 48 nonce trits
	buf := make(trinary.Trits, consts.HashTrinarySize)
	b1t6.Encode(buf, digest)
	var nb [8]byte
	for i := 0; i < 8; i++ {
		nb[i] = byte(nonce >> (8 * uint(i)))
	}
	b1t6.Encode(buf[192:], nb[:])
	c := curl.NewCurlP81()
	c.Absorb(buf)
	want, _ := c.Squeeze(consts.HashTrinarySize)
	eq := true
	for i := range want {
		if want[i] != ref[i] {
			eq = false
		}
	}
	verifAssert("difficulty.block.layout", eq)
}
