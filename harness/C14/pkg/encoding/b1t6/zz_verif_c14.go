//go:build verif

package b1t6

import (
	"errors"

	"github.com/iotaledger/iota.go/trinary"
)

func verifIsTrit(t int8) bool { return t == -1 || t == 0 || t == 1 }

// value of 6 balanced trits, little endian
func verifGroupValue(t []int8) int {
	return int(t[0]) + 3*int(t[1]) + 9*int(t[2]) + 27*int(t[3]) + 81*int(t[4]) + 243*int(t[5])
}

const verifTryteAlphabet = "9ABCDEFGHIJKLMNOPQRSTUVWXYZ"

// VerifC14B1t6Encode: each byte becomes the 6 balanced little-endian trits of its signed
// value; the tryte form equals the trit form; Decode/DecodeTrytes invert.
//
//verif:run quick n=0..3
//verif:run thorough n=4..5
func VerifC14B1t6Encode(n int) {
	src := verifBytes("src", n)
	dst := verifDirtyTrits("tdst0", EncodedLen(n))
	w := Encode(dst, src)
	verifAssert("enc.len", w == 6*n)
	for i := 0; i < n; i++ {
		g := dst[6*i : 6*i+6]
		for j := 0; j < 6; j++ {
			verifAssert("enc.trit", verifIsTrit(g[j]))
		}
		verifAssert("enc.value", verifGroupValue(g) == int(int8(src[i])))
	}
	// tryte form = trit form
	ts := EncodeToTrytes(src)
	verifAssert("trytes.len", len(ts) == 2*n)
	for k := 0; k < 2*n; k++ {
		v := int(dst[3*k]) + 3*int(dst[3*k+1]) + 9*int(dst[3*k+2])
		verifAssert("trytes.range", v >= -13 && v <= 13)
		// tryte alphabet: 9 = 0, A..M = 1..13, N..Z = -13..-1
		idx := v
		if idx < 0 {
			idx += 27
		}
		verifAssert("trytes.char", ts[k] == verifTryteAlphabet[idx])
	}
	// round trips
	back := verifBytes("back0", n) // arbitrary previous content of the destination
	k, err := Decode(back, dst)
	verifAssert("rt.trits.ok", err == nil && k == n)
	for i := 0; i < n; i++ {
		verifAssert("rt.trits.byte", back[i] == src[i])
	}
	b2, err2 := DecodeTrytes(ts)
	verifAssert("rt.trytes.ok", err2 == nil && len(b2) == n)
	if err2 == nil && len(b2) == n {
		for i := 0; i < n; i++ {
			verifAssert("rt.trytes.byte", b2[i] == src[i])
		}
	}
}

// VerifC14B1t6Decode: strict acceptance for g groups + r extra trits over {-1,0,1}.
//
//verif:run quick g=0..2 r=0..5
//verif:run thorough g=3..4 r=0..5
func VerifC14B1t6Decode(g, r int) {
	n := 6*g + r
	raw := verifBytes("trits", n)
	src := make(trinary.Trits, n)
	for i := range src {
		src[i] = int8(raw[i])
		verifAssume(verifIsTrit(src[i]))
	}
	dst := make([]byte, g) // (a destination with previous content: VerifC14B1t6DecodeDirty)
	k, err := Decode(dst, src)

	firstBad := -1
	for i := g - 1; i >= 0; i-- {
		v := verifGroupValue(src[6*i : 6*i+6])
		if v < -128 || v > 127 {
			firstBad = i
		}
	}
	switch {
	case firstBad >= 0:
		verifAssert("dec.invalid.err", errors.Is(err, ErrInvalidTrits))
		verifAssert("dec.invalid.count", k == firstBad)
	case r != 0:
		verifAssert("dec.len.err", errors.Is(err, ErrInvalidLength))
		verifAssert("dec.len.count", k == g)
	default:
		verifAssert("dec.ok", err == nil && k == g)
		re := verifDirtyTrits("re0", n)
		Encode(re, dst)
		for i := 0; i < n; i++ {
			verifAssert("dec.reencode", re[i] == src[i])
		}
	}
	lim := g
	if firstBad >= 0 {
		lim = firstBad
	}
	for i := 0; i < lim; i++ {
		verifAssert("dec.value", int(int8(dst[i])) == verifGroupValue(src[6*i:6*i+6]))
	}
}

// VerifC14B1t6DecodeTrytes: strict acceptance for tryte strings over [9A-Z].
//
//verif:run quick g=0..2 r=0..1
//verif:run thorough g=3..4 r=0..1
func VerifC14B1t6DecodeTrytes(g, r int) {
	n := 2*g + r
	s := verifString("trytes", n)
	vals := make([]int, n)
	for i := 0; i < n; i++ {
		c := s[i]
		verifAssume(c == '9' || (c >= 'A' && c <= 'Z'))
		switch {
		case c == '9':
			vals[i] = 0
		case c <= 'M':
			vals[i] = int(c-'A') + 1
		default:
			vals[i] = int(c-'N') - 13
		}
	}
	out, err := DecodeTrytes(s)
	firstBad := -1
	for i := g - 1; i >= 0; i-- {
		v := vals[2*i] + 27*vals[2*i+1]
		if v < -128 || v > 127 {
			firstBad = i
		}
	}
	switch {
	case firstBad >= 0:
		verifAssert("dect.invalid.err", errors.Is(err, ErrInvalidTrits) && out == nil)
	case r != 0:
		verifAssert("dect.len.err", errors.Is(err, ErrInvalidLength) && out == nil)
	default:
		verifAssert("dect.ok", err == nil && len(out) == g)
		if err == nil && len(out) == g {
			for i := 0; i < g; i++ {
				verifAssert("dect.value", int(int8(out[i])) == vals[2*i]+27*vals[2*i+1])
			}
			re := EncodeToTrytes(out)
			verifAssert("dect.reencode", re == s)
		}
	}
}

// verifDirtyTrits: a destination buffer with arbitrary previous content (results must not depend on it)
func verifDirtyTrits(name string, n int) trinary.Trits {
	b := verifBytes(name, n)
	t := make(trinary.Trits, n)
	for i := range t {
		t[i] = int8(b[i])
	}
	return t
}

// VerifC14B1t6DecodeDirty: the decoded bytes do not depend on what the destination held before, and bytes
// behind the decoded ones are left alone.
//
//verif:run quick g=1..2
//verif:run thorough g=3..4
func VerifC14B1t6DecodeDirty(g int) {
	n := 6 * g
	raw := verifBytes("trits", n)
	src := make(trinary.Trits, n)
	for i := range src {
		src[i] = int8(raw[i])
		verifAssume(verifIsTrit(src[i]))
	}
	for i := 0; i < g; i++ {
		v := verifGroupValue(src[6*i : 6*i+6])
		verifAssume(v >= -128 && v <= 127)
	}
	prev := verifBytes("dst0", g+1)
	dst := append([]byte{}, prev...)
	k, err := Decode(dst, src)
	verifAssert("dirty.ok", err == nil && k == g)
	for i := 0; i < g; i++ {
		verifAssert("dirty.value", int(int8(dst[i])) == verifGroupValue(src[6*i:6*i+6]))
	}
	verifAssert("dirty.tail.untouched", dst[g] == prev[g])
	tr := make([]byte, 2*g)
	for i := 0; i < g; i++ {
		t1 := int(src[6*i]) + 3*int(src[6*i+1]) + 9*int(src[6*i+2])
		t2 := int(src[6*i+3]) + 3*int(src[6*i+4]) + 9*int(src[6*i+5])
		tr[2*i], tr[2*i+1] = verifTryteChar(t1), verifTryteChar(t2)
	}
	bs, err2 := DecodeTrytes(string(tr))
	verifAssert("dirty.trytes.ok", err2 == nil && len(bs) == g)
	for i := 0; i < g && i < len(bs); i++ {
		verifAssert("dirty.trytes.same", bs[i] == dst[i])
	}
}

func verifTryteChar(v int) byte {
	if v == 0 {
		return '9'
	}
	if v < 0 {
		v += 27
	}
	return byte('A' + v - 1)
}
