//go:build verif

package b1t8

import (
	"errors"

	"github.com/iotaledger/iota.go/trinary"
)

// VerifC14B1t8RoundTrip: Encode is the 8 bits LSB first as trits 0/1, Decode inverts it.
//
//verif:run quick n=0..3
//verif:run thorough n=4..5
func VerifC14B1t8RoundTrip(n int) {
	src := verifBytes("src", n)
	dst := verifDirtyTrits("tdst0", EncodedLen(n))
	w := Encode(dst, src)
	verifAssert("enc.len", w == 8*n)
	for i := 0; i < n; i++ {
		for j := 0; j < 8; j++ {
			verifAssert("enc.bit", dst[8*i+j] == int8((src[i]>>uint(j))&1))
		}
	}
	back := verifBytes("back0", n) // arbitrary previous content of the destination
	k, err := Decode(back, dst)
	verifAssert("dec.noerr", err == nil)
	verifAssert("dec.count", k == n)
	for i := 0; i < n; i++ {
		verifAssert("dec.byte", back[i] == src[i])
	}
}

// VerifC14B1t8Decode: strict acceptance for g groups + r extra trits, arbitrary int8 trits.
//
//verif:run quick g=0..2 r=0..7
//verif:run thorough g=3..4 r=0..7
func VerifC14B1t8Decode(g, r int) {
	n := 8*g + r
	raw := verifBytes("trits", n)
	src := make(trinary.Trits, n)
	for i := range src {
		src[i] = int8(raw[i])
	}
	dst := verifBytes("dst0", g) // arbitrary previous content of the destination
	k, err := Decode(dst, src)

	// reference: first invalid trit (not 0/1) in order decides
	firstBad := -1
	for i := 0; i < n; i++ {
		if src[i] != 0 && src[i] != 1 {
			firstBad = i
			break
		}
	}
	switch {
	case firstBad >= 0:
		verifAssert("dec.badtrit.err", errors.Is(err, ErrInvalidTrit))
		verifAssert("dec.badtrit.count", k == firstBad/8 || (firstBad >= 8*g && k == g))
	case r != 0:
		verifAssert("dec.len.err", errors.Is(err, ErrInvalidLength))
		verifAssert("dec.len.count", k == g)
	default:
		verifAssert("dec.ok", err == nil && k == g)
		// accepted input re-encodes to itself
		re := verifDirtyTrits("re0", n)
		Encode(re, dst)
		for i := 0; i < n; i++ {
			verifAssert("dec.reencode", re[i] == src[i])
		}
	}
	if err == nil {
		for i := 0; i < g; i++ {
			var b byte
			for j := 0; j < 8; j++ {
				b |= byte(src[8*i+j]) << uint(j)
			}
			verifAssert("dec.value", dst[i] == b)
		}
	}
}

// verifDirtyTrits: a destination buffer with arbitrary previous content (results must not depend on it)
func verifDirtyTrits(name string, n int) trinary.Trits {
	b := verifBytes(name, n)
	t := make(trinary.Trits, n)
	for i := range t {
		t[i] = int8(b[i])
	}
	return t
}
