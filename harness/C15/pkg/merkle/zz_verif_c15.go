//go:build verif

package merkle

import (
	"crypto"
	"encoding"
	"errors"
)

type verifLeaf struct {
	b   []byte
	err error
}

func (l verifLeaf) MarshalBinary() ([]byte, error) { return l.b, l.err }

var verifErrA = errors.New("leaf error A")
var verifErrB = errors.New("leaf error B")

func verifH(parts ...[]byte) []byte {
	h := crypto.SHA256.New()
	for _, p := range parts {
		h.Write(p)
	}
	return h.Sum(nil)
}

// RFC 6962 section 2.1, top-down.
func verifMTH(leaves [][]byte) []byte {
	n := len(leaves)
	if n == 0 {
		return verifH()
	}
	if n == 1 {
		return verifH([]byte{0}, leaves[0])
	}
	k := 1
	for k*2 < n {
		k *= 2
	}
	return verifH([]byte{1}, verifMTH(leaves[:k]), verifMTH(leaves[k:]))
}

// independent bottom-up construction: hash pairs level by level, an odd last node is promoted.
func verifBottomUp(leaves [][]byte) []byte {
	if len(leaves) == 0 {
		return verifH()
	}
	level := make([][]byte, len(leaves))
	for i, l := range leaves {
		level[i] = verifH([]byte{0}, l)
	}
	for len(level) > 1 {
		var next [][]byte
		for i := 0; i+1 < len(level); i += 2 {
			next = append(next, verifH([]byte{1}, level[i], level[i+1]))
		}
		if len(level)%2 == 1 {
			next = append(next, level[len(level)-1])
		}
		level = next
	}
	return level[0]
}

func verifEq(a, b []byte) bool {
	if len(a) != len(b) {
		return false
	}
	eq := true
	for i := range a {
		if a[i] != b[i] {
			eq = false
		}
	}
	return eq
}

// VerifC15Hash: n leaves with symbolic contents; e = index of the first leaf whose marshaling
// fails (-1: none; a later leaf fails too with a different error).
//
//verif:run quick n=0..17 e=-1
//verif:run quick n=1..9 e=0..8
//verif:run thorough n=18..66 e=-1
//verif:run thorough n=127..130 e=-1
//verif:run thorough n=255..257 e=-1
//verif:run thorough n=10..17 e=0,5,9,16
func VerifC15Hash(n, e int) {
	if e >= n {
		return
	}
	leaves := make([][]byte, n)
	data := make([]encoding.BinaryMarshaler, n)
	backing := make([][]byte, n)
	for i := range leaves {
		// every third leaf is a short view into a larger buffer the caller owns (capacity beyond a digest):
		// nothing of that buffer may be written; leaf 2 is leaf 0 again (the same storage listed twice)
		if i%3 == 0 {
			backing[i] = verifBytes("leaf", 40)
			leaves[i] = backing[i][:i%2+1]
		} else if i == 2 {
			backing[i], leaves[i] = backing[0], leaves[0]
		} else {
			backing[i] = verifBytes("leaf", i%3+1)
			leaves[i] = backing[i]
		}
		l := verifLeaf{b: leaves[i]}
		if e >= 0 && i == e {
			l.err = verifErrA
		}
		if e >= 0 && i > e && i%2 == 0 {
			l.err = verifErrB
		}
		data[i] = l
	}
	snapshot := make([][]byte, n)
	for i := range leaves {
		snapshot[i] = append([]byte{}, backing[i]...)
	}
	hasher := NewHasher(crypto.SHA256)
	got, err := hasher.Hash(data)
	if e >= 0 {
		verifAssert("err.first", err == verifErrA && got == nil)
	} else {
		verifAssert("noerr", err == nil)
		verifAssert("equals.rfc6962", verifEq(got, verifMTH(leaves)))
		verifAssert("equals.bottomup", verifEq(got, verifBottomUp(leaves)))
		verifAssert("size", len(got) == hasher.Size())
	}
	// inputs are not modified
	for i := range leaves {
		verifAssert("input.unchanged", verifEq(backing[i], snapshot[i]))
		l, ok := data[i].(verifLeaf)
		verifAssert("input.same", ok && len(l.b) == len(leaves[i]))
	}
	if n == 0 {
		verifAssert("empty", verifEq(got, hasher.EmptyRoot()))
	}
}

// VerifC15LargestPowerOfTwo: for every x in [2, 2^62]: the result is the largest power of two
// strictly below x; x <= 1 panics.
func VerifC15LargestPowerOfTwo() {
	x := verifInt("x")
	if x <= 1 {
		verifAssert("panics.small", verifPanics(func() { largestPowerOfTwo(x) }))
		return
	}
	verifAssume(x <= 1<<62)
	r := largestPowerOfTwo(x)
	verifAssert("pow2", r != 0 && r&(r-1) == 0)
	verifAssert("below", r < uint(x))
	verifAssert("largest", uint(x) <= 2*r)
}
