//go:build verif

package bech32

// BIP-173 polymod step (reference). VerifC16StepLemmas shows that the real bech32Polymod loop
// performs exactly this step from every 30-bit state, and that the step is GF(2)-linear and
// injective for a zero input; the distance harness then works with linear forms.
func verifStep(c uint32, v byte) uint32 {
	top := c >> 25
	c = (c&0x1ffffff)<<5 ^ uint32(v)
	g := [5]uint32{0x3b6a57b2, 0x26508e6d, 0x1ea119fa, 0x3d4233dd, 0x2a1462b3}
	for i := uint(0); i < 5; i++ {
		if (top>>i)&1 == 1 {
			c ^= g[i]
		}
	}
	return c
}

// VerifC16StepLemmas (all on symbolic values):
//  real.step   the real loop from any state (six arbitrary 5-bit symbols span all 2^30 states, injectivity
//              of that map is checked) with any byte = verifStep
//  linear      verifStep(c1^c2, v1^v2) = verifStep(c1,v1) ^ verifStep(c2,v2)
//  injective   verifStep(c,0) = 0 => c = 0
//  range       states stay below 2^30 for 5-bit symbols
//
//verif:timeout 300
func VerifC16StepLemmas() {
	x := verifBytes("x", 6)
	y := verifBytes("y", 6)
	same := true
	for i := 0; i < 6; i++ {
		verifAssume(x[i] < 32 && y[i] < 32)
		if x[i] != y[i] {
			same = false
		}
	}
	sx, sy := bech32Polymod(x), bech32Polymod(y)
	verifAssert("span.injective", sx != sy || same)
	verifAssert("state.range", sx >= 0 && sx < 1<<30)
	v := verifU8("v")
	s7 := bech32Polymod(append(append([]byte{}, x...), v))
	verifAssert("real.step", s7 >= 0 && uint32(s7) == verifStep(uint32(sx), v) && s7 < 1<<30+256)

	c1, c2 := verifU32("c1")&(1<<30-1), verifU32("c2")&(1<<30-1)
	v1, v2 := verifU8("v1"), verifU8("v2")
	verifAssert("linear", verifStep(c1^c2, v1^v2) == verifStep(c1, v1)^verifStep(c2, v2))
	if verifStep(c1, 0) == 0 {
		verifAssert("injective", c1 == 0)
	}
	if v1 < 32 {
		verifAssert("range", verifStep(c1, v1) < 1<<30)
	}
	// initial value and acceptance constant of the real code
	verifAssert("init", bech32Polymod(nil) == 1)
}

func verifParity(f uint16) uint16 {
	f ^= f >> 8
	f ^= f >> 4
	f ^= f >> 2
	f ^= f >> 1
	return f & 1
}

// linear forms over the 15 unknown bits (three 5-bit error values): state bit b = parity(form[b] & unknowns)
type verifLin [30]uint16

func verifZeroStep(m *[30]uint32, s verifLin) verifLin {
	var out verifLin
	for b := 0; b < 30; b++ {
		if s[b] == 0 {
			continue
		}
		for j := 0; j < 30; j++ {
			if (m[b]>>uint(j))&1 == 1 {
				out[j] ^= s[b]
			}
		}
	}
	return out
}

// VerifC16Distance: errors at window positions 0 < p2 < p3 with values v1 != 0, v2, v3 (a zero value
// = no error there) and possibly a fourth error at any later position of the 89-symbol window: the
// syndrome is never zero. By linearity (lemma) the syndrome of an error pattern does not depend on
// the error-free symbols; after the third error the state is S = sum of linear images of the values;
// a fourth error of any value at distance k+1 can cancel it only if Z^(k+1)(S) < 32, and no error
// at all only if S = 0 (Z is injective), which is the case Z^(k+1)(S) = 0.
//
//verif:run quick p2=1 p3=2..88
//verif:run quick p2=1..87 p3=88
//verif:run quick p2=10,30,50,70 p3=11,12,31,32,51,52,71,72
//verif:run thorough p2=1..87 p3=2..88
//verif:solver z3
func VerifC16Distance(p2, p3 int) {
	if p2 >= p3 {
		verifReach("skip")
		return
	}
	// matrix of the zero-input step from the reference step (concrete evaluation on the basis)
	var m [30]uint32
	for b := 0; b < 30; b++ {
		m[b] = verifStep(1<<uint(b), 0)
	}
	var s verifLin
	inject := func(base int) {
		for i := 0; i < 5; i++ {
			s[i] ^= 1 << uint(base+i)
		}
	}
	inject(0) // v1 at position 0
	for pos := 1; pos <= p3; pos++ {
		s = verifZeroStep(&m, s)
		if pos == p2 {
			inject(5)
		}
		if pos == p3 {
			inject(10)
		}
	}
	x := verifU16("errors") & 0x7fff
	verifAssume(x&31 != 0) // the first error is a real one
	bad := false
	for k := 0; p3+k+1 <= 88; k++ {
		s = verifZeroStep(&m, s)
		acc := uint16(0)
		for b := 5; b < 30; b++ {
			acc |= verifParity(s[b] & x)
		}
		if acc == 0 {
			bad = true
		}
	}
	// no later error: S itself must be non-zero, i.e. not all forms vanish (covered by k = 0 when p3 < 88;
	// for p3 = 88 check it directly)
	if p3 == 88 {
		acc := uint16(0)
		for b := 0; b < 30; b++ {
			acc |= verifParity(s[b] & x)
		}
		if acc == 0 {
			bad = true
		}
	}
	verifAssert("distance", !bad)
}

// VerifC16Link: what ties the code-theoretic statement to Decode: distinct charset characters decode
// to distinct symbols, and replacing a letter by another letter of the same case (or a digit by a
// digit) in the human-readable part keeps the high part of its expansion and changes the low part, so
// all changes fall into the window of len(hrp)+len(data) <= 89 symbols that follow the zero separator.
func VerifC16Link() {
	a, b := verifU8("a"), verifU8("b")
	da, db := charset.decMap[a], charset.decMap[b]
	if da != 0xFF && db != 0xFF && a != b {
		verifAssert("charset.injective", da != db)
		verifAssert("charset.range", da < 32 && db < 32)
	}
	lower := a >= 'a' && a <= 'z' && b >= 'a' && b <= 'z'
	digit := a >= '0' && a <= '9' && b >= '0' && b <= '9'
	if (lower || digit) && a != b {
		ea := bech32HrpExpand(string([]byte{a}))
		eb := bech32HrpExpand(string([]byte{b}))
		verifAssert("hrp.expand.shape", len(ea) == 3 && len(eb) == 3)
		if len(ea) == 3 && len(eb) == 3 {
			verifAssert("hrp.high.same", ea[0] == eb[0] && ea[1] == 0 && eb[1] == 0)
			verifAssert("hrp.low.differs", ea[2] != eb[2] && ea[2] < 32 && eb[2] < 32)
		}
	}
	// expansion layout for a longer prefix: highs, zero, lows
	h := verifString("hrp", 4)
	for i := 0; i < 4; i++ {
		verifAssume(h[i] >= 33 && h[i] <= 126)
	}
	e := bech32HrpExpand(h)
	verifAssert("expand.len", len(e) == 9)
	if len(e) == 9 {
		for i := 0; i < 4; i++ {
			verifAssert("expand.layout", e[i] == h[i]>>5 && e[5+i] == h[i]&31)
		}
		verifAssert("expand.zero", e[4] == 0)
	}
	verifAssert("window", maxStringLength-1 == 89 && checksumLength == 6)
}

const verifCharset = "qpzry9x8gf2tvdw0s3jn54khce6mua7l" // BIP-173

func verifSymbolOf(c byte) byte {
	idx := byte(255)
	for i := 0; i < 32; i++ {
		if verifCharset[i] == c {
			idx = byte(i)
		}
	}
	return idx
}

func verifLower16(c byte) byte {
	if c >= 'A' && c <= 'Z' {
		return c + 32
	}
	return c
}

// VerifC16Accept: what Decode accepts is a code word, whatever route the string takes through the
// decoder. For every byte string of length n with a one-character prefix (s[1] the only separator):
// if Decode returns no error then the case is uniform, every data character is a charset character
// and the BIP-173 syndrome of the lower-cased string - computed with the reference step from the
// reference charset - is exactly 1. (With n-2 >= 6 arbitrary symbols the polymod state ranges over all
// 2^30 values, so the acceptance test itself is compared on every state.) The real bech32Polymod,
// bech32VerifyChecksum, validateCase and charset are executed, nothing is summarised.
//
//verif:run quick n=8
//verif:run thorough n=10,11
//verif:timeout 300
func VerifC16Accept(n int) {
	s := verifString("s", n)
	verifAssume(s[1] == '1')
	for i := 2; i < n; i++ {
		verifAssume(s[i] != '1')
	}
	hasUpper, hasLower, charsOK := false, false, true
	c := verifStep(1, verifLower16(s[0])>>5)
	c = verifStep(c, 0)
	c = verifStep(c, verifLower16(s[0])&31)
	for i := 0; i < n; i++ {
		if s[i] >= 'A' && s[i] <= 'Z' {
			hasUpper = true
		}
		if s[i] >= 'a' && s[i] <= 'z' {
			hasLower = true
		}
		if i >= 2 {
			v := verifSymbolOf(verifLower16(s[i]))
			if v == 255 {
				charsOK = false
				v = 0
			}
			c = verifStep(c, v)
		}
	}
	_, _, err := Decode(s)
	if err != nil {
		return
	}
	verifReach("accepted")
	verifAssert("accepted.uniform.case", !(hasUpper && hasLower))
	verifAssert("accepted.charset", charsOK)
	verifAssert("accepted.syndrome.one", c == 1)
}
