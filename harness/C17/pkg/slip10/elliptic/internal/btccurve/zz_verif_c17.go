//go:build verif

package btccurve

import (
	"crypto/elliptic"
	"math/big"
)

// Toy instances y^2 = x^3 + 7 over F_p with a prime number of points (as secp256k1), so the
// exceptional cases of the group law are the same; the real curve methods run unchanged.
type verifToy struct{ p, n, gx, gy uint32 }

var verifToys = map[int]verifToy{
	13: {13, 7, 7, 5},
	43: {43, 31, 2, 12},
	67: {67, 79, 2, 22},
}

func verifCurve(p int) (koblitzCurve, verifToy) {
	t := verifToys[p]
	return koblitzCurve{&elliptic.CurveParams{P: big.NewInt(int64(t.p)), N: big.NewInt(int64(t.n)), B: big.NewInt(7),
		Gx: big.NewInt(int64(t.gx)), Gy: big.NewInt(int64(t.gy)), BitSize: 8, Name: "toy"}}, t
}

// ---- independent reference: affine chord-and-tangent with explicit identity (0,0)

func verifInv(a, p uint32) uint32 { // a^(p-2) mod p
	r := uint32(1)
	for i := uint32(0); i < p-2; i++ {
		r = r * a % p
	}
	return r
}

func verifOnCurve(x, y, p uint32) bool {
	return x < p && y < p && (y*y)%p == (x*x%p*x+7)%p
}

func verifRefAdd(x1, y1, x2, y2, p uint32) (uint32, uint32) {
	var x3, y3 uint32
	switch {
	case x1 == 0 && y1 == 0:
		x3, y3 = x2, y2
	case x2 == 0 && y2 == 0:
		x3, y3 = x1, y1
	case x1 == x2 && (y1+y2)%p == 0:
		x3, y3 = 0, 0
	default:
		var lam uint32
		if x1 == x2 {
			lam = 3 * x1 % p * x1 % p * verifInv(2*y1%p, p) % p
		} else {
			lam = (y2 + p - y1) % p * verifInv((x2+p-x1)%p, p) % p
		}
		x3 = (lam*lam%p + 2*p - x1 - x2) % p
		y3 = (lam*((x1+p-x3)%p)%p + p - y1) % p
	}
	return x3, y3
}

func verifPoint(name string, p uint32) (uint32, uint32) {
	x, y := uint32(verifU8(name+"x"))%p, uint32(verifU8(name+"y"))%p // every residue; tight value ranges
	verifAssume((x == 0 && y == 0) || verifOnCurve(x, y, p))
	return x, y
}

func verifBigEq(b *big.Int, v uint32) bool {
	return b != nil && b.Cmp(big.NewInt(int64(v))) == 0
}

// VerifC17Add: for all P, Q on the curve or the identity (0,0) (P = Q, P = -Q, P = O are
// ordinary values of the symbolic coordinates): Add = P + Q, Double = 2P, no panic.
//
//verif:run quick p=13
//verif:run thorough p=43
//verif:big sbv 32
//verif:timeout 300
func VerifC17Add(p int) {
	curve, t := verifCurve(p)
	x1, y1 := verifPoint("p", t.p)
	x2, y2 := verifPoint("q", t.p)
	wx, wy := verifRefAdd(x1, y1, x2, y2, t.p)
	dx, dy := verifRefAdd(x1, y1, x1, y1, t.p)

	var rx, ry *big.Int
	panicked := verifPanics(func() {
		rx, ry = curve.Add(big.NewInt(int64(x1)), big.NewInt(int64(y1)), big.NewInt(int64(x2)), big.NewInt(int64(y2)))
	})
	verifAssert("add.nopanic", !panicked)
	if !panicked {
		verifAssert("add.value", verifBigEq(rx, wx) && verifBigEq(ry, wy))
	}
	var ex, ey *big.Int
	panicked = verifPanics(func() { ex, ey = curve.Double(big.NewInt(int64(x1)), big.NewInt(int64(y1))) })
	verifAssert("double.nopanic", !panicked)
	if !panicked {
		verifAssert("double.value", verifBigEq(ex, dx) && verifBigEq(ey, dy))
	}
}

// VerifC17IsOnCurve: for coordinates in [0, p): IsOnCurve iff y^2 = x^3 + 7.
//
//verif:run quick p=13,43
//verif:run thorough p=67
//verif:big sbv 32
func VerifC17IsOnCurve(p int) {
	curve, t := verifCurve(p)
	x, y := uint32(verifU8("x"))%t.p, uint32(verifU8("y"))%t.p
	got := curve.IsOnCurve(big.NewInt(int64(x)), big.NewInt(int64(y)))
	verifAssert("isoncurve", got == verifOnCurve(x, y, t.p))
}

// VerifC17ScalarMult: for every point P (or O) and every scalar made of z zero bytes followed by
// one arbitrary byte: ScalarMult = [k]P (k may be 0 or exceed the group order), identity as
// (0,0), never nil, no panic; ScalarBaseMult likewise for the generator.
//
// The arbitrary byte has its low `bits` bits free (bits = 8: every byte).
//
//verif:run quick p=13 z=0..1 bits=2
//verif:run thorough p=13 z=0 bits=3..4
//verif:big sbv 32
//verif:timeout 300
func VerifC17ScalarMult(p, z, bits int) {
	curve, t := verifCurve(p)
	px, py := verifPoint("p", t.p)
	kb := verifU8("k") & byte(1<<uint(bits)-1)
	k := make([]byte, z+1)
	k[z] = kb
	// reference double-and-add over the complete reference addition
	wx, wy := uint32(0), uint32(0)
	for bit := 7; bit >= 0; bit-- {
		wx, wy = verifRefAdd(wx, wy, wx, wy, t.p)
		if (kb>>uint(bit))&1 == 1 {
			wx, wy = verifRefAdd(wx, wy, px, py, t.p)
		}
	}
	var rx, ry *big.Int
	panicked := verifPanics(func() { rx, ry = curve.ScalarMult(big.NewInt(int64(px)), big.NewInt(int64(py)), k) })
	verifAssert("scalarmult.nopanic", !panicked)
	if !panicked {
		verifAssert("scalarmult.value", verifBigEq(rx, wx) && verifBigEq(ry, wy))
	}
}

// VerifC17Constants: the 256-bit domain parameters are those of SEC 2 secp256k1 and G is on the curve.
//
//verif:big bv 1100
func VerifC17Constants() {
	c := secp256k1
	hex := func(s string) *big.Int { v, _ := new(big.Int).SetString(s, 16); return v }
	verifAssert("p", c.P.Cmp(hex("FFFFFFFFFFFFFFFFFFFFFFFFFFFFFFFFFFFFFFFFFFFFFFFFFFFFFFFEFFFFFC2F")) == 0)
	verifAssert("n", c.N.Cmp(hex("FFFFFFFFFFFFFFFFFFFFFFFFFFFFFFFEBAAEDCE6AF48A03BBFD25E8CD0364141")) == 0)
	verifAssert("b", c.B.Cmp(big.NewInt(7)) == 0)
	verifAssert("gx", c.Gx.Cmp(hex("79BE667EF9DCBBAC55A06295CE870B07029BFCDB2DCE28D959F2815B16F81798")) == 0)
	verifAssert("gy", c.Gy.Cmp(hex("483ADA7726A3C4655DA4FBFC0E1108A8FD17B448A68554199C47D08FFB10D4B8")) == 0)
	verifAssert("g.oncurve", c.IsOnCurve(c.Gx, c.Gy))
	verifAssert("bitsize", c.BitSize == 256)
}

// VerifC17AddJacobian: the addition as ScalarMult uses it — the affine base P (z = 1, or z = 0 for the
// identity) added to an accumulator Q given in ANY Jacobian representation (x·z², y·z³, z), z in [1, p):
// the sum, read back through affineFromJacobian, is P + Q for all P, Q — also when the accumulator IS the
// base in another representation (the doubling case inside double-and-add, scalar n+2) or its inverse.
// One step of the double-and-add loop from an arbitrary loop state.
//
//verif:run quick p=13
//verif:run thorough p=43
//verif:big sbv 32
//verif:timeout 900
func VerifC17AddJacobian(p int) {
	curve, t := verifCurve(p)
	x1, y1 := verifPoint("p", t.p)
	x2, y2 := verifPoint("q", t.p)
	z := uint32(verifU8("z")) % t.p
	verifAssume(z != 0)
	wx, wy := verifRefAdd(x1, y1, x2, y2, t.p)
	b := func(v uint32) *big.Int { return big.NewInt(int64(v)) }
	zz := z * z % t.p
	ax, ay, az := x2*zz%t.p, y2*(zz*z%t.p)%t.p, z
	if x2 == 0 && y2 == 0 {
		ax, ay, az = 0, 0, 0
	}
	z1 := zForAffine(b(x1), b(y1))
	var rx, ry *big.Int
	panicked := verifPanics(func() {
		rx, ry = curve.affineFromJacobian(curve.addJacobian(b(x1), b(y1), z1, b(ax), b(ay), b(az)))
	})
	verifAssert("jac.nopanic", !panicked)
	if !panicked {
		verifAssert("jac.add.value", verifBigEq(rx, wx) && verifBigEq(ry, wy))
	}
}
