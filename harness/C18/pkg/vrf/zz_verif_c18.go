//go:build verif

package vrf

import (
	"crypto/sha512"
	"encoding/hex"
	"math/big"

	"filippo.io/edwards25519"
)

func verifEq(a, b []byte) bool {
	if len(a) != len(b) {
		return false
	}
	eq := true
	for i := range a {
		if a[i] != b[i] {
			eq = false
		}
	}
	return eq
}

func verifLE(b []byte) *big.Int {
	rev := make([]byte, len(b))
	for i := range b {
		rev[len(b)-1-i] = b[i]
	}
	return new(big.Int).SetBytes(rev)
}

// VerifC18CanonicalY: isCanonicalY(x) iff the y-coordinate (the low 255 bits of the little-endian
// value) is below p = 2^255 - 19 (exact, all 2^256 strings).
//
//verif:big bv 300
func VerifC18CanonicalY() {
	x := verifBytes("x", 32)
	y := verifLE(x)
	y.And(y, new(big.Int).Sub(new(big.Int).Lsh(big.NewInt(1), 255), big.NewInt(1)))
	p := new(big.Int).Sub(new(big.Int).Lsh(big.NewInt(1), 255), big.NewInt(19))
	verifAssert("canonical.y", isCanonicalY(x) == (y.Cmp(p) < 0))
}

// TAI candidate for one counter value, written as in RFC 9381 section 5.4.1.1
func verifTAI(pk, alpha []byte, ctr byte) (*edwards25519.Point, bool) {
	h := sha512.New()
	h.Write([]byte{0x03, 0x01})
	h.Write(pk)
	h.Write(alpha)
	h.Write([]byte{ctr, 0x00})
	d := h.Sum(nil)
	H, err := newPointFromCanonicalBytes(d[:32])
	if err != nil {
		return nil, false
	}
	H.MultByCofactor(H)
	if H.Equal(edwards25519.NewIdentityPoint()) == 1 {
		return nil, false
	}
	return H, true
}

// VerifC18Complete: for every seed and alpha (try-and-increment succeeding at counter 0 or 1):
// Prove's proof is the RFC 9381 ECVRF-EDWARDS25519-SHA512-TAI proof written with the library
// primitives in specification order, Verify accepts it for the matching key with the hash that
// ProofToHash and Proof.Hash return, and the encoded proof decodes to itself.
//
// tai = highest try-and-increment counter allowed (the bound is an assumption on the hash values).
//
//verif:run quick al=0 tai=0
//verif:run thorough al=2 tai=0
//verif:run thorough al=0,1 tai=1
//verif:big int
//verif:timeout 300
func VerifC18Complete(al, tai int) {
	seed := verifBytes("seed", 32)
	alpha := verifBytes("alpha", al)
	sk := NewKeyFromSeed(seed)
	pk := []byte(sk[32:])
	H0, ok0 := verifTAI(pk, alpha, 0)
	H1, ok1 := verifTAI(pk, alpha, 1)
	if !verifSymbolic() {
		// native replay: SHA-512 is uninterpreted in the symbolic run, so the reported seed need not
		// satisfy the counter bound for the real hash; take the first neighbouring seed that does
		for a := 1; a < 256 && !ok0; a++ {
			seed[31] ^= byte(a)
			sk = NewKeyFromSeed(seed)
			pk = []byte(sk[32:])
			if H0, ok0 = verifTAI(pk, alpha, 0); !ok0 {
				seed[31] ^= byte(a)
			}
		}
		sk = NewKeyFromSeed(seed)
		pk = []byte(sk[32:])
		H0, ok0 = verifTAI(pk, alpha, 0)
		H1, ok1 = verifTAI(pk, alpha, 1)
	}
	if tai == 0 {
		verifAssume(ok0)
	} else {
		verifAssume(ok0 || ok1) // bound on the try-and-increment counter
	}
	H := H1
	if ok0 {
		H = H0
	}

	proof := Prove(sk, alpha)
	pi := proof.Bytes()
	verifAssert("proof.size", len(pi) == 80)

	// reference (RFC 9381 section 5.1)
	hs := sha512.Sum512(seed)
	x, _ := new(edwards25519.Scalar).SetBytesWithClamping(hs[:32])
	hString := H.Bytes()
	gamma := new(edwards25519.Point).ScalarMult(x, H)
	kh := sha512.New()
	kh.Write(hs[32:])
	kh.Write(hString)
	k, _ := new(edwards25519.Scalar).SetUniformBytes(kh.Sum(nil))
	ch := sha512.New()
	ch.Write([]byte{0x03, 0x02})
	ch.Write(pk)
	ch.Write(hString)
	ch.Write(gamma.Bytes())
	ch.Write(new(edwards25519.Point).ScalarBaseMult(k).Bytes())
	ch.Write(new(edwards25519.Point).ScalarMult(k, H).Bytes())
	ch.Write([]byte{0x00})
	cs := make([]byte, 32)
	copy(cs, ch.Sum(nil)[:16])
	c, _ := edwards25519.NewScalar().SetCanonicalBytes(cs)
	s := edwards25519.NewScalar().MultiplyAdd(c, x, k)
	want := append(append(append([]byte{}, gamma.Bytes()...), c.Bytes()[:16]...), s.Bytes()...)
	verifAssert("prove.rfc9381", verifEq(pi, want))

	okV, beta := Verify(pk, alpha, pi)
	verifAssert("verify.accepts", okV)
	b2, herr := ProofToHash(pi)
	verifAssert("prooftohash", herr == nil && verifEq(b2, proof.Hash()))
	if okV {
		verifAssert("verify.hash", verifEq(beta, proof.Hash()))
	}
	// beta = SHA512(0x03 || 0x03 || encode(8*Gamma) || 0x00)
	g8 := new(edwards25519.Point).MultByCofactor(gamma)
	bh := sha512.New()
	bh.Write([]byte{0x03, 0x03})
	bh.Write(g8.Bytes())
	bh.Write([]byte{0x00})
	verifAssert("hash.rfc9381", verifEq(proof.Hash(), bh.Sum(nil)))
	// the encoding decodes to itself
	p2, derr := new(Proof).SetBytes(pi)
	verifAssert("decode.own", derr == nil)
	if derr == nil {
		verifAssert("reencode.own", verifEq(p2.Bytes(), pi))
	}
}

// VerifC18Gates: Verify rejects keys that are not canonically encoded or have small order, and every
// input that is not an 80-byte string of (canonical point, 16-byte c, canonical scalar s); decoding
// a proof succeeds only for inputs that re-encode to themselves. The library contract used:
// a canonical encoding that decodes re-encodes to itself.
//
//verif:run quick n=0,79,80,81
//verif:big int
func VerifC18Gates(n int) {
	pk := verifBytes("pk", 32)
	alpha := verifBytes("alpha", 1)
	pi := verifBytes("pi", n)
	if !verifSymbolic() && verifVariant() == 1 && n >= 32 {
		// native replay, second attempt: point decoding is uninterpreted in the symbolic run; make the
		// Gamma field and the key real points derived from the reported bytes
		hg := sha512.Sum512(pi[:32])
		sg, _ := edwards25519.NewScalar().SetUniformBytes(hg[:])
		copy(pi[:32], new(edwards25519.Point).ScalarBaseMult(sg).Bytes())
		hk := sha512.Sum512(pk)
		sk, _ := edwards25519.NewScalar().SetUniformBytes(hk[:])
		copy(pk, new(edwards25519.Point).ScalarBaseMult(sk).Bytes())
	}
	if !verifSymbolic() {
		verifBankSmallOrder(alpha)
	}
	_, ok0 := verifTAI(pk, alpha, 0)
	if !verifSymbolic() {
		// native replay: SHA-512 is uninterpreted in the symbolic run, so the reported alpha need not
		// satisfy the counter bound for the real hash; take the first neighbouring alpha that does
		for a := 0; a < 256 && !ok0; a++ {
			alpha[0] ^= byte(a)
			if _, ok0 = verifTAI(pk, alpha, 0); !ok0 {
				alpha[0] ^= byte(a)
			}
		}
	}
	verifAssume(ok0) // bound on the try-and-increment counter (an assumption on the hash value)
	okV, beta := Verify(pk, alpha, pi)
	if !okV {
		verifAssert("reject.nohash", beta == nil)
	}
	Y, yerr := newPointFromCanonicalBytes(pk)
	keyOK := yerr == nil && new(edwards25519.Point).MultByCofactor(Y).Equal(edwards25519.NewIdentityPoint()) != 1
	if !keyOK {
		verifAssert("badkey.rejected", !okV)
	}
	if !isCanonicalY(pk) {
		verifAssert("noncanonical.key.rejected", !okV)
	}
	if n != 80 {
		verifAssert("length.rejected", !okV)
		_, derr := new(Proof).SetBytes(pi)
		verifAssert("length.decode.rejected", derr != nil)
		return
	}
	// decoding
	p, derr := new(Proof).SetBytes(pi)
	G, gerr := newPointFromCanonicalBytes(pi[:32])
	sOK := verifLE(pi[48:80]).Cmp(verifL) < 0
	verifAssert("decode.iff", (derr == nil) == (gerr == nil && sOK))
	if derr != nil {
		verifAssert("undecodable.rejected", !okV)
		_, herr := ProofToHash(pi)
		verifAssert("undecodable.nohash", herr != nil)
		return
	}
	// library contract: the canonical encoding of a decodable point re-encodes to itself
	verifAssume(verifEq(G.Bytes(), pi[:32]))
	verifAssert("decode.reencodes", verifEq(p.Bytes(), pi))
}

var verifL, _ = new(big.Int).SetString("7237005577332262213973186563042994240857116359379907606001950938285454250989", 10)

// verifBankSmallOrder (native replays only): the class "small-order key accepted" of the algebraic
// model made concrete. For each of the eight small-order points Y (multiples of an order-8 point) a
// proof is ground as anyone could without a secret key: Gamma = identity, U = k*B, V = k*H, and k is
// increased until the RFC 9381 challenge c is a multiple of the order of Y, so that s = k satisfies
// the verification equation. Verify has to refuse every one of them.
func verifBankSmallOrder(alpha []byte) {
	tb, _ := hex.DecodeString("26e8958fc2b227b045c3f489f2ef98f0d5dfac05d3c63339b13802886d53fc05")
	T, err := new(edwards25519.Point).SetBytes(tb)
	if err != nil {
		return
	}
	id := edwards25519.NewIdentityPoint()
	Y := edwards25519.NewIdentityPoint()
	for j := 0; j < 8; j++ {
		if j > 0 {
			Y = new(edwards25519.Point).Add(Y, T)
		}
		yb := Y.Bytes()
		var H *edwards25519.Point
		for ctr := 0; ctr < 256 && H == nil; ctr++ {
			if c, ok := verifTAI(yb, alpha, byte(ctr)); ok {
				H = c
			}
		}
		if H == nil {
			continue
		}
		for kk := 1; kk <= 200; kk++ {
			kb := make([]byte, 32)
			kb[0], kb[1] = byte(kk), byte(kk>>8)
			k, _ := edwards25519.NewScalar().SetCanonicalBytes(kb)
			ch := sha512.New()
			ch.Write([]byte{0x03, 0x02})
			ch.Write(yb)
			ch.Write(H.Bytes())
			ch.Write(id.Bytes())
			ch.Write(new(edwards25519.Point).ScalarBaseMult(k).Bytes())
			ch.Write(new(edwards25519.Point).ScalarMult(k, H).Bytes())
			ch.Write([]byte{0x00})
			cs := ch.Sum(nil)[:16]
			if cs[0]&7 != 0 {
				continue
			}
			pi := append(append(append([]byte{}, id.Bytes()...), cs...), kb...)
			okV, _ := Verify(yb, alpha, pi)
			verifAssert("bank.small.order.key.refused", !okV)
			break
		}
	}
}
