//go:build verif

package address

import (
	"errors"
	"strings"

	"github.com/wollac/iota-crypto-demo/pkg/bech32"
)

// Contract stubs for bech32.Decode / bech32.Encode (their behaviour is the subject of C04/C05):
// Decode returns an arbitrary (prefix, data) pair or an error; Decode(Encode(h, d)) = (h, d)
// for the lower-case prefixes used here; an accepted string re-encodes to its lower-case form
// (C04 canonicity), i.e. Encode(Decode(s)) is s.
var (
	verifStubHRP  string
	verifStubData []byte
	verifStubErr  error
	verifEncHRP   string
	verifEncData  []byte
	verifEncCalls int
)

const verifToken = "\x00<encoded>"

var verifErrDecode = errors.New("stub decode error")

func verifStubDecode(s string) (string, []byte, error) {
	if s == verifToken {
		return verifEncHRP, append([]byte{}, verifEncData...), nil
	}
	if verifStubErr != nil {
		return "", nil, verifStubErr
	}
	return verifStubHRP, verifStubData, nil
}

func verifStubEncode(hrp string, src []byte) (string, error) {
	verifEncHRP = hrp
	verifEncData = append([]byte{}, src...)
	verifEncCalls++
	return verifToken, nil
}

func verifBytesEq(a, b []byte) bool {
	if len(a) != len(b) {
		return false
	}
	eq := true
	for i := range a {
		if a[i] != b[i] {
			eq = false
		}
	}
	return eq
}

// VerifC19Parse: ParseBech32 on every decoded (prefix of hl ASCII bytes, dl data bytes).
//
//verif:run quick hl=0..5 dl=0,1,2,20,21,22,32,33,34,52
//verif:run thorough hl=3..4 dl=3..19
//verif:run thorough hl=3..4 dl=23..31
//verif:replace github.com/wollac/iota-crypto-demo/pkg/bech32.Decode verifStubDecode
//verif:replace github.com/wollac/iota-crypto-demo/pkg/bech32.Encode verifStubEncode
func VerifC19Parse(hl, dl int) {
	hrp := verifString("hrp", hl)
	for i := 0; i < hl; i++ {
		verifAssume(hrp[i] < 0x80)
	}
	data := verifBytes("data", dl)
	verifStubHRP, verifStubData, verifStubErr = hrp, data, nil

	// reference
	idx := -1
	if hrp == "iota" {
		idx = 0
	}
	if hrp == "atoi" {
		idx = 1
	}
	if hrp == "smr" {
		idx = 2
	}
	if hrp == "rms" {
		idx = 3
	}
	shapeOK := false
	if dl >= 1 {
		v := data[0]
		shapeOK = (v == 0x00 && dl == 33) || ((v == 0x08 || v == 0x10) && dl == 21)
	}
	ok := idx >= 0 && shapeOK

	in := "some string"
	if !verifSymbolic() {
		// native replay: the stubs are not in effect, build the real string for (hrp, data)
		real, eerr := bech32.Encode(hrp, data)
		if eerr != nil {
			return // no Bech32 string decodes to this prefix: not replayable
		}
		in = real
	}
	var p Prefix
	var a Address
	var err error
	panicked := verifPanics(func() { p, a, err = ParseBech32(in) })
	verifAssert("nopanic", !panicked)
	if panicked {
		return
	}
	verifAssert("accept.iff.valid", (err == nil) == ok)
	if err != nil {
		verifAssert("err.nilresult", a == nil && p == 0)
		return
	}
	if !ok {
		return
	}
	verifReach("accepted")
	verifAssert("prefix", int(p) == idx)
	verifAssert("bytes", verifBytesEq(a.Bytes(), data))
	verifAssert("version", byte(a.Version()) == data[0])
	// re-encoding hands exactly (prefix string, data) to bech32.Encode
	re, eerr := Bech32(p, a)
	if verifSymbolic() {
		verifAssert("reencode", eerr == nil && verifEncHRP == hrp && verifBytesEq(verifEncData, data))
	} else {
		verifAssert("reencode", eerr == nil && re == strings.ToLower(in))
	}
}

// VerifC19ParseDecodeError: a bech32 error is returned as an error (wrapping it).
//
//verif:replace github.com/wollac/iota-crypto-demo/pkg/bech32.Decode verifStubDecode
func VerifC19ParseDecodeError() {
	verifStubErr = verifErrDecode
	p, a, err := ParseBech32("x")
	if verifSymbolic() {
		verifAssert("decode.err", err != nil && errors.Is(err, verifErrDecode) && a == nil && p == 0)
	} else {
		verifAssert("decode.err", err != nil && a == nil && p == 0)
	}
}

// VerifC19RoundTrip: for every prefix and address kind, ParseBech32(Bech32(p, a)) = (p, a).
//
//verif:run quick kind=0..2
//verif:replace github.com/wollac/iota-crypto-demo/pkg/bech32.Decode verifStubDecode
//verif:replace github.com/wollac/iota-crypto-demo/pkg/bech32.Encode verifStubEncode
func VerifC19RoundTrip(kind int) {
	pi := verifChoice("prefix", 4)
	p := Prefix(pi)
	var a Address
	switch kind {
	case 0:
		var x Ed25519Address
		copy(x.hash[:], verifBytes("hash", 32))
		a = x
	case 1:
		var x AliasAddress
		copy(x.hash[:], verifBytes("hash", 20))
		a = x
	default:
		var x NFTAddress
		copy(x.hash[:], verifBytes("hash", 20))
		a = x
	}
	s, err := Bech32(p, a)
	verifAssert("enc.noerr", err == nil)
	p2, a2, err2 := ParseBech32(s)
	verifAssert("dec.noerr", err2 == nil)
	if err2 != nil {
		return
	}
	verifAssert("rt.prefix", p2 == p)
	verifAssert("rt.kind", a2.Version() == a.Version())
	verifAssert("rt.bytes", verifBytesEq(a2.Bytes(), a.Bytes()))
	verifAssert("rt.equal", a2 == a)
}
