//go:build verif

package migration

// VerifC19MigrationRoundTrip: Decode(Encode(a)) = a for every 32-byte address whose first k
// bytes are arbitrary (the remaining bytes are fixed to 0x5a; k = 32 is every address).
//
//verif:run quick k=3
//verif:run thorough k=10
//verif:timeout 300
func VerifC19MigrationRoundTrip(k int) {
	var addr [Ed25519AddressSize]byte
	for i := range addr {
		addr[i] = 0x5a
	}
	copy(addr[:], verifBytes("addr", k))
	t := Encode(addr)
	verifAssert("enc.len", len(t) == 81)
	if len(t) != 81 {
		return
	}
	verifAssert("enc.prefix", t[:8] == "TRANSFER" && t[80] == '9')
	for i := 0; i < 81; i++ {
		verifAssert("enc.tryte", t[i] == '9' || (t[i] >= 'A' && t[i] <= 'Z'))
	}
	back, err := Decode(t)
	verifAssert("dec.noerr", err == nil)
	if err == nil {
		for i := 0; i < 32; i++ {
			verifAssert("dec.byte", back[i] == addr[i])
		}
	}
}

// VerifC19MigrationStrict: on every ASCII string of length n, Decode never panics, rejects
// every length but 81, and accepts only strings the encoder produces (accepted => Encode(result) = input).
//
// Of the 64 address trytes the first k are arbitrary, the others are fixed to '9'; prefix,
// checksum trytes and suffix are always arbitrary (k = 64 is every string).
//
//verif:run quick n=80..82 k=4
//verif:run thorough n=0,1,8,9,79 k=64
//verif:run thorough n=81 k=16
//verif:timeout 300
func VerifC19MigrationStrict(n, k int) {
	raw := []byte(verifString("t", n))
	for i := 0; i < n; i++ {
		if i >= 8+k && i < 72 {
			raw[i] = '9'
		}
		verifAssume(raw[i] < 0x80)
	}
	t := string(raw)
	if !verifSymbolic() && n == 81 {
		verifAliasBank(raw)
	}
	var addr [Ed25519AddressSize]byte
	var err error
	panicked := verifPanics(func() { addr, err = Decode(t) })
	verifAssert("nopanic", !panicked)
	if panicked {
		return
	}
	if n != 81 {
		verifAssert("len.reject", err != nil)
		return
	}
	if err != nil {
		return
	}
	verifReach("accepted")
	re := Encode(addr)
	verifAssert("accepted.reencodes.len", len(re) == n)
	if len(re) == n {
		for i := 0; i < n; i++ {
			verifAssert("accepted.reencodes", re[i] == t[i])
		}
	}
}

// verifAliasBank (native replays only; BLAKE2b is uninterpreted in the symbolic run, so a counterexample
// that needs a matching checksum is rebuilt with the real one): the address spelled by the model's
// trytes (read leniently, byte = group value mod 256) is encoded properly; then every group of address and
// checksum is re-spelled in every other way that has the same value mod 256 (the only way to hit the same
// byte) — each such string is one the encoder cannot produce and must be refused.
func verifAliasBank(raw []byte) {
	tv := func(c byte) int {
		switch {
		case c == '9':
			return 0
		case c >= 'A' && c <= 'M':
			return int(c-'A') + 1
		case c >= 'N' && c <= 'Z':
			return int(c-'N') - 13
		}
		return 0
	}
	tc := func(v int) byte {
		switch {
		case v == 0:
			return '9'
		case v > 0:
			return byte('A' + v - 1)
		}
		return byte('N' + v + 13)
	}
	var addr [Ed25519AddressSize]byte
	for i := range addr {
		addr[i] = byte(tv(raw[8+2*i]) + 27*tv(raw[9+2*i]))
	}
	good := []byte(Encode(addr))
	back, err := Decode(string(good))
	verifAssert("bank.valid.accepted", err == nil && back == addr)
	for g := 0; g < 36; g++ {
		v := tv(good[8+2*g]) + 27*tv(good[9+2*g])
		for _, alt := range []int{v + 256, v - 256, v + 512, v - 512} {
			if alt < -364 || alt > 364 {
				continue
			}
			// balanced split alt = t1 + 27*t2 with t1, t2 in [-13, 13]
			t2 := (alt + 13 + 27*14) / 27 - 14
			t1 := alt - 27*t2
			w := append([]byte{}, good...)
			w[8+2*g], w[9+2*g] = tc(t1), tc(t2)
			_, err := Decode(string(w))
			verifAssert("bank.alias.spelling.rejected", err != nil)
		}
	}
}
