//go:build verif

package migration

// VerifC19MigrationRoundTrip: Decode(Encode(a)) = a for every 32-byte address whose first k
// bytes are arbitrary (the remaining bytes are fixed to 0x5a; k = 32 is every address).
//
//verif:run quick k=3
//verif:run thorough k=10
//verif:timeout 300
func VerifC19MigrationRoundTrip(k int) {
	var addr [Ed25519AddressSize]byte
	for i := range addr {
		addr[i] = 0x5a
	}
	copy(addr[:], verifBytes("addr", k))
	t := Encode(addr)
	verifAssert("enc.len", len(t) == 81)
	if len(t) != 81 {
		return
	}
	verifAssert("enc.prefix", t[:8] == "TRANSFER" && t[80] == '9')
	for i := 0; i < 81; i++ {
		verifAssert("enc.tryte", t[i] == '9' || (t[i] >= 'A' && t[i] <= 'Z'))
	}
	back, err := Decode(t)
	verifAssert("dec.noerr", err == nil)
	if err == nil {
		for i := 0; i < 32; i++ {
			verifAssert("dec.byte", back[i] == addr[i])
		}
	}
}

// VerifC19MigrationStrict: on every ASCII string of length n, Decode never panics, rejects
// every length but 81, and accepts only strings the encoder produces (accepted => Encode(result) = input).
//
// Of the 64 address trytes the first k are arbitrary, the others are fixed to '9'; prefix,
// checksum trytes and suffix are always arbitrary (k = 64 is every string).
//
//verif:run quick n=80..82 k=4
//verif:run thorough n=0,1,8,9,79 k=64
//verif:run thorough n=81 k=16
//verif:timeout 300
func VerifC19MigrationStrict(n, k int) {
	raw := []byte(verifString("t", n))
	for i := 0; i < n; i++ {
		if i >= 8+k && i < 72 {
			raw[i] = '9'
		}
		verifAssume(raw[i] < 0x80)
	}
	t := string(raw)
	var addr [Ed25519AddressSize]byte
	var err error
	panicked := verifPanics(func() { addr, err = Decode(t) })
	verifAssert("nopanic", !panicked)
	if panicked {
		return
	}
	if n != 81 {
		verifAssert("len.reject", err != nil)
		return
	}
	if err != nil {
		return
	}
	verifReach("accepted")
	re := Encode(addr)
	verifAssert("accepted.reencodes.len", len(re) == n)
	if len(re) == n {
		for i := 0; i < n; i++ {
			verifAssert("accepted.reencodes", re[i] == t[i])
		}
	}
}
