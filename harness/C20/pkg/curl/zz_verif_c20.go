//go:build verif

package curl

// Curl-P s-box on trits: the published truth table, indexed by a + 4*b + 5 for a, b in {-1,0,1}
// (entries 3 and 7 are unused).
var verifTruth = [11]int8{1, 0, -1, 2, 1, -1, 0, 2, -1, 1, 0}

// trit coding of one lane: (l,h) = (1,1) -> 0, (0,1) -> +1, (1,0) -> -1 ; (0,0) invalid
func verifDec(l, h uint) int8 { return int8(h&1) - int8(l&1) }

// VerifC20SBox: in every bit lane the s-box equals the Curl-P truth table on the nine valid
// pairs, never yields the invalid code (0,0), and lane j of the result depends on lane j only.
func VerifC20SBox() {
	aL, aH, bL, bH := uint(verifU64("aL")), uint(verifU64("aH")), uint(verifU64("bL")), uint(verifU64("bH"))
	rL, rH := sBox(aL, aH, bL, bH)
	j := uint(verifU8("lane"))
	verifAssume(j < 64)
	la, ha, lb, hb := (aL>>j)&1, (aH>>j)&1, (bL>>j)&1, (bH>>j)&1
	// lane independence: the result bit equals the s-box of the single-lane words
	sL, sH := sBox(la, ha, lb, hb)
	verifAssert("sbox.lanewise", (rL>>j)&1 == sL&1 && (rH>>j)&1 == sH&1)
	// on EVERY pair of words (codes (0,0) included, which the trit truth table does not cover) the round
	// function is the bitwise one the property names: l' = ~(aL & (aH ^ bL)), h' = (aL ^ bH) | (aL & (aH ^ bL))
	d := aL & (aH ^ bL)
	verifAssert("sbox.bitwise.formula", rL == ^d && rH == (aL^bH)|d)
	if (la|ha) == 1 && (lb|hb) == 1 { // both valid
		a, b := verifDec(la, ha), verifDec(lb, hb)
		want := verifTruth[int(a)+4*int(b)+5]
		verifAssert("sbox.valid", ((rL>>j)|(rH>>j))&1 == 1)
		verifAssert("sbox.truthtable", verifDec(rL>>j, rH>>j) == want)
	}
}

// reference: 81 rounds; round: to[i] = S(from[p(i)], from[p(i+1)]), p(0) = 0,
// p(i+1) = p(i) + 364 if p(i) < 365 else p(i) - 365
func verifReference(l, h *[StateSize]uint) (rl, rh [StateSize]uint) {
	var perm [StateSize + 1]int
	for i := 0; i < StateSize; i++ {
		if perm[i] < 365 {
			perm[i+1] = perm[i] + 364
		} else {
			perm[i+1] = perm[i] - 365
		}
	}
	fl, fh := *l, *h
	for r := 0; r < 81; r++ {
		var tl, th [StateSize]uint
		for i := 0; i < StateSize; i++ {
			tl[i], th[i] = sBox(fl[perm[i]], fh[perm[i]], fl[perm[i+1]], fh[perm[i+1]])
		}
		fl, fh = tl, th
	}
	return fl, fh
}

// VerifC20Transform: on every bit-sliced state the assembly permutation (interpreted from
// transform_amd64.s), the portable transformGeneric and 81 reference rounds write the same
// result; the inputs are unchanged; every assembly access stays inside the four buffers
// (out-of-range or unaligned accesses, data-dependent control flow and mismatched argument
// names are reported by the interpreter as panics).
//
//verif:maxsteps 400000000
func VerifC20Transform() {
	var lfrom, hfrom [StateSize]uint
	for i := range lfrom {
		lfrom[i] = uint(verifU64("l"))
		hfrom[i] = uint(verifU64("h"))
	}
	l0, h0 := lfrom, hfrom
	wl, wh := verifReference(&lfrom, &hfrom)

	var gl, gh [StateSize]uint
	l1, h1 := lfrom, hfrom
	transformGeneric(&gl, &gh, &l1, &h1)

	var al, ah [StateSize]uint
	l2, h2 := lfrom, hfrom
	transform(&al, &ah, &l2, &h2)

	okG, okA, same := true, true, true
	for i := 0; i < StateSize; i++ {
		if gl[i] != wl[i] || gh[i] != wh[i] {
			okG = false
		}
		if al[i] != wl[i] || ah[i] != wh[i] {
			okA = false
		}
		if lfrom[i] != l0[i] || hfrom[i] != h0[i] {
			same = false
		}
	}
	verifAssert("generic.equals.reference", okG)
	verifAssert("asm.equals.reference", okA)
	verifAssert("input.unchanged", same)
}

// VerifC20Selection: exactly one definition of transform is compiled for every combination of
// the build tags, the assembly stub and the assembly text are selected together, and the
// fallback is the portable implementation.
func VerifC20Selection() {
	stub := verifBuildConstraint("pkg/curl/transform_amd64.go")
	text := verifBuildConstraint("pkg/curl/transform_amd64.s")
	noasm := verifBuildConstraint("pkg/curl/transform_noasm.go")
	verifAssert("stub.iff.text", stub == text)
	verifAssert("exactly.one", stub != noasm)
}

// VerifC20TransformPurego: with the purego tag the package's transform is the portable one;
// it must equal the reference as well (so hashes do not depend on the tag).
//
//verif:tags purego
//verif:maxsteps 400000000
func VerifC20TransformPurego() {
	var lfrom, hfrom [StateSize]uint
	for i := range lfrom {
		lfrom[i] = uint(verifU64("l"))
		hfrom[i] = uint(verifU64("h"))
	}
	wl, wh := verifReference(&lfrom, &hfrom)
	var al, ah [StateSize]uint
	l2, h2 := lfrom, hfrom
	transform(&al, &ah, &l2, &h2)
	ok := true
	for i := 0; i < StateSize; i++ {
		if al[i] != wl[i] || ah[i] != wh[i] {
			ok = false
		}
	}
	verifAssert("purego.equals.reference", ok)
	// and the sponge built on it
	c := NewCurlP81()
	verifAssert("purego.state", c.l[0] == ^uint(0) && c.direction == SpongeAbsorbing)
}
